//! C16 conformance harness (feature `serde`, format RON).
//!
//! Reads TLC's standard output on stdin like the main harness and replays
//!   kind "parse"        deserialising the source text as a `Node` must equal precompiling it
//!                       (equal trees / equal error messages);
//!   kind "history"      context histories of MC_Ctx.tla with the extra operation `serde`
//!                       (serialise + deserialise the slot): afterwards the projection must be the
//!                       specification's SerdeProjection (same variables and switch, no functions);
//!   kind "serde_value"  one value bound to a variable survives the round trip bit-exactly.
//! Writes a summary in the format of the main harness.
mod json;
use evalexpr::*;
use json::{esc, J};
use std::collections::BTreeMap;
use std::io::BufRead;

type V = Value<DefaultNumericTypes>;
type C = HashMapContext<DefaultNumericTypes>;

fn dec_value(j: &J) -> Option<V> {
    Some(match j.get("t").str() {
        "Int" | "I" => {
            let a = j.get("i").arr();
            if a.len() != 6 {
                return None;
            }
            let mut m: u128 = 0;
            for k in (1..6).rev() {
                m = (m << 15) | a[k].u64() as u128;
            }
            Value::Int(if a[0].u64() == 0 { m as i64 } else { (m as i128).wrapping_neg() as i64 })
        },
        "Float" | "F" => {
            let mut b = 0u64;
            for w in j.get("f").arr() {
                b = (b << 16) | w.u64();
            }
            Value::Float(f64::from_bits(b))
        },
        "String" | "S" => Value::String(j.get("s").text()),
        "Boolean" | "B" => Value::Boolean(j.get("b").bool()),
        "Tuple" | "T" => Value::Tuple(j.get("k").arr().iter().map(dec_value).collect::<Option<Vec<_>>>()?),
        "Empty" | "E" => Value::Empty,
        _ => return None,
    })
}

fn same_value(a: &V, b: &V) -> bool {
    match (a, b) {
        (Value::Float(x), Value::Float(y)) => x.to_bits() == y.to_bits() || (f64::is_nan(*x) && f64::is_nan(*y)),
        (Value::Tuple(x), Value::Tuple(y)) => x.len() == y.len() && x.iter().zip(y).all(|(p, q)| same_value(p, q)),
        (Value::Float(_), _) | (_, Value::Float(_)) => false,
        _ => a == b,
    }
}

#[derive(Default)]
struct State {
    cases: u64,
    bad: u64,
    counters: BTreeMap<String, u64>,
    distinct: BTreeMap<String, std::collections::BTreeSet<u64>>,
    failures: Vec<(String, String, String)>,
    failure_checks: BTreeMap<String, u64>,
    samples: Vec<String>,
}

fn hash(s: &str) -> u64 {
    use std::hash::{Hash, Hasher};
    let mut h = std::collections::hash_map::DefaultHasher::new();
    s.hash(&mut h);
    h.finish()
}

impl State {
    fn fail(&mut self, check: &str, detail: String, raw: &str) {
        *self.failure_checks.entry(check.into()).or_insert(0) += 1;
        if self.failures.iter().filter(|f| f.0 == check).count() < 40 {
            self.failures.push((check.into(), detail, raw.into()));
        }
    }
    fn count(&mut self, k: &str) {
        *self.counters.entry(k.into()).or_insert(0) += 1;
    }
    fn distinct(&mut self, k: &str, raw: &str) {
        self.distinct.entry(k.into()).or_default().insert(hash(raw));
    }
}

fn source_of(case: &J) -> String {
    if case.has("src") {
        case.get("src").text()
    } else {
        case.get("toks").arr().iter().map(|t| t.text()).collect::<Vec<_>>().join(" ")
    }
}

/// Deserialising an expression from a string yields the tree that precompiling the string yields,
/// and fails with the same message when precompilation fails.
fn run_parse(st: &mut State, case: &J, raw: &str) {
    let src = source_of(case);
    st.count("node_round_trips");
    st.distinct("node_nontrivial", raw);
    let ron_text = match ron::to_string(&src) {
        Ok(t) => t,
        Err(e) => {
            st.fail("serde_node", format!("{src:?}: the source string cannot be serialised: {e}"), raw);
            return;
        },
    };
    let r = std::panic::catch_unwind(|| (ron::from_str::<Node<DefaultNumericTypes>>(&ron_text), build_operator_tree::<DefaultNumericTypes>(&src)));
    let (de, built) = match r {
        Ok(x) => x,
        Err(_) => {
            st.fail("panic", format!("{src:?}: deserialisation panicked"), raw);
            return;
        },
    };
    match (&de, &built) {
        (Ok(a), Ok(b)) => {
            if a != b {
                st.fail("serde_node", format!("{src:?}: deserialised tree {a} differs from the precompiled tree {b}"), raw);
            }
        },
        (Err(e), Err(b)) => {
            let msg = match &e.code {
                ron::error::Error::Message(m) => m.clone(),
                other => format!("{other}"),
            };
            if msg != b.to_string() {
                st.fail("serde_node", format!("{src:?}: deserialisation fails with {msg:?}, precompilation with {:?}", b.to_string()), raw);
            }
        },
        (Ok(_), Err(b)) => st.fail("serde_node", format!("{src:?}: deserialises although precompilation fails with {b:?}"), raw),
        (Err(e), Ok(_)) => st.fail("serde_node", format!("{src:?}: deserialisation fails with {e} although precompilation succeeds"), raw),
    }
    if st.samples.len() < 3 {
        st.samples.push(format!("{{\"kind\":\"node\",\"source\":{},\"ron\":{},\"ok\":{}}}", esc(&src), esc(&ron_text), de.is_ok()));
    }
}

fn round_trip(c: &C) -> Result<C, String> {
    let text = ron::to_string(c).map_err(|e| format!("serialisation failed: {e}"))?;
    ron::from_str::<C>(&text).map_err(|e| format!("deserialisation of {text:?} failed: {e}"))
}

/// Documents that are REJECTED come first: a deserialiser that keeps state across calls (a depth counter, a scratch
/// buffer) must not let a failed attempt influence the round trips that follow.  Returns how many were rejected.
fn rejected_documents() -> usize {
    let mut rejected = 0;
    let mut v = Value::Int(1);
    for _ in 0..16 {
        v = Value::Tuple(vec![Value::Int(2), v]);
    }
    let mut c = C::new();
    c.set_value("t".into(), v).unwrap();
    c.set_value("s".into(), Value::String("text".into())).unwrap();
    if let Ok(text) = ron::to_string(&c) {
        // the innermost element becomes an unknown variant; a truncated document; a wrong field type
        let mut bad: Vec<String> = Vec::new();
        if let Some(i) = text.rfind("Int(1)") {
            bad.push(format!("{}Bogus(1){}", &text[..i], &text[i + 6..]));
        }
        bad.push(text[..text.len() * 2 / 3].to_string());
        bad.push(text.replacen("String(\"text\")", "String(7)", 1));
        for _ in 0..12 {
            for b in &bad {
                if ron::from_str::<C>(b).is_err() {
                    rejected += 1;
                }
            }
        }
    }
    for src in ["\"1 +\"", "\"\\\"ab\\\\x\\\"\"", "\"(\"", "17", "\"/* open\""] {
        if ron::from_str::<Node<DefaultNumericTypes>>(src).is_err() {
            rejected += 1;
        }
    }
    rejected
}

/// LONG but perfectly ordinary expression strings: deserialisation must agree with precompilation (flat chains are not nesting).
fn long_documents(st: &mut State) {
    let mut sources: Vec<String> = Vec::new();
    sources.push((1..=150).map(|i| format!("p{i}")).collect::<Vec<_>>().join(" + "));
    sources.push((1..=90).map(|i| format!("b{i}")).collect::<Vec<_>>().join(" && "));
    sources.push(format!("({})", (1..=200).map(|i| i.to_string()).collect::<Vec<_>>().join(", ")));
    sources.push((1..=120).map(|i| format!("v = {i}")).collect::<Vec<_>>().join("; "));
    sources.push(format!("{}1{}", "(".repeat(60), ")".repeat(60)));
    sources.push(format!("{}1{}", "f(".repeat(40), ")".repeat(40)));
    for src in sources {
        st.count("long_documents");
        let quoted = ron::to_string(&src).unwrap_or_default();
        let built = build_operator_tree::<DefaultNumericTypes>(&src);
        let de = ron::from_str::<Node<DefaultNumericTypes>>(&quoted);
        let same = match (&built, &de) {
            (Ok(a), Ok(b)) => a == b,
            (Err(e), Err(d)) => d.to_string().contains(&e.to_string()),
            _ => false,
        };
        if !same {
            let shown = match &de {
                Ok(_) => "a different tree".to_string(),
                Err(e) => format!("error {e}"),
            };
            st.fail("serde_node", format!("a {}-character expression: precompilation {}, deserialisation gives {shown}", src.len(),
                                          if built.is_ok() { "succeeds" } else { "fails" }), "{\"kind\":\"long_document\"}");
        }
    }
}

fn projection(c: &C, probe: &[String]) -> (bool, Vec<(String, V)>, Vec<String>) {
    let mut vars: Vec<(String, V)> = c.iter_variables().collect();
    vars.sort_by(|a, b| a.0.cmp(&b.0));
    let mut funcs = Vec::new();
    for p in probe {
        match c.call_function(p, &Value::Empty) {
            Err(EvalexprError::FunctionIdentifierNotFound(n)) if &n == p => {},
            _ => funcs.push(p.clone()),
        }
    }
    funcs.sort();
    (c.are_builtin_functions_disabled(), vars, funcs)
}

fn spec_projection(j: &J) -> Option<(bool, Vec<(String, V)>, Vec<String>)> {
    let mut vars = Vec::new();
    for v in j.get("vars").arr() {
        vars.push((v.get("n").text(), dec_value(v.get("v"))?));
    }
    vars.sort_by(|a, b| a.0.cmp(&b.0));
    let mut funcs: Vec<String> = j.get("funcs").arr().iter().map(|f| f.get("n").text()).collect();
    funcs.sort();
    Some((j.get("nb").bool(), vars, funcs))
}

fn same_projection(a: &(bool, Vec<(String, V)>, Vec<String>), b: &(bool, Vec<(String, V)>, Vec<String>)) -> bool {
    a.0 == b.0 && a.2 == b.2 && a.1.len() == b.1.len() && a.1.iter().zip(&b.1).all(|(x, y)| x.0 == y.0 && same_value(&x.1, &y.1))
}

fn make_function(b: &str, v: Option<V>) -> Function<DefaultNumericTypes> {
    let b = b.to_string();
    Function::new(move |arg| match b.as_str() {
        "const" => Ok(v.clone().unwrap_or(Value::Empty)),
        _ => Ok(arg.clone()),
    })
}

fn run_history(st: &mut State, case: &J, raw: &str) {
    let steps = case.get("steps").arr();
    st.count("histories");
    let has_serde = steps.iter().any(|s| s.get("call").get("op").str() == "serde");
    if has_serde {
        st.distinct("history_with_serde", raw);
    }
    let mut slots: Vec<Option<C>> = vec![Some(C::new()), None];
    let mut probe: Vec<String> = vec!["never_defined".into()];
    let mut trail = Vec::new();
    for step in steps {
        let call = step.get("call");
        let op = call.get("op").str();
        let s = call.get("slot").u64() as usize;
        let n = call.get("n").text();
        trail.push(format!("[{s}] {op}({n})"));
        if op == "clone" {
            let c = slots[s].clone();
            slots[1 - s] = c;
            continue;
        }
        let c = match slots[s].as_mut() {
            Some(c) => c,
            None => {
                st.bad += 1;
                return;
            },
        };
        let ok: Option<bool> = match op {
            "set_value" => Some(c.set_value(n.clone(), dec_value(call.get("v")).unwrap_or(Value::Empty)).is_ok()),
            "eval" => {
                let src = call.get("toks").arr().iter().map(|t| t.text()).collect::<Vec<_>>().join(" ");
                Some(if call.get("mode").str() == "imm" { eval_with_context(&src, &*c).is_ok() } else { eval_with_context_mut(&src, c).is_ok() })
            },
            "get_value" => Some(c.get_value(&n).is_some()),
            "clear_variables" => {
                c.clear_variables();
                None
            },
            "clear_functions" => {
                c.clear_functions();
                None
            },
            "clear" => {
                c.clear();
                None
            },
            "set_function" => {
                if !probe.contains(&n) {
                    probe.push(n.clone());
                }
                c.set_function(n.clone(), make_function(call.get("b").str(), dec_value(call.get("bv")))).ok();
                None
            },
            "set_builtins" => {
                c.set_builtin_functions_disabled(call.get("d").bool()).ok();
                None
            },
            "serde" => match round_trip(c) {
                Ok(c2) => {
                    slots[s] = Some(c2);
                    None
                },
                Err(e) => {
                    st.fail("serde_context", format!("history {trail:?}: {e}"), raw);
                    return;
                },
            },
            _ => None,
        };
        if let Some(ok) = ok {
            let want_ok = step.get("obs").get("p").str() == "val";
            if ok != want_ok {
                st.fail("serde_context", format!("history {trail:?}: the step returned ok={ok}, the specification says ok={want_ok}"), raw);
                return;
            }
        }
    }
    for (s, want) in case.get("post").arr().iter().enumerate() {
        let absent = want.get("kind").str() == "Absent";
        match (&slots[s], absent) {
            (None, true) => {},
            (Some(c), false) => {
                let got = projection(c, &probe);
                match spec_projection(want) {
                    Some(w) if same_projection(&got, &w) => {},
                    Some(w) => {
                        st.fail("serde_context", format!("history {trail:?}: slot {s} is {got:?}, the specification says {w:?}"), raw);
                        return;
                    },
                    None => st.bad += 1,
                }
            },
            _ => {
                st.fail("serde_context", format!("history {trail:?}: slot {s} presence differs"), raw);
                return;
            },
        }
    }
    if has_serde && st.samples.len() < 6 {
        st.samples.push(format!("{{\"kind\":\"history\",\"steps\":{}}}", esc(&format!("{trail:?}"))));
    }
}

fn run_value(st: &mut State, case: &J, raw: &str) {
    st.count("value_round_trips");
    st.distinct("value_nontrivial", raw);
    let v = match dec_value(case.get("v")) {
        Some(v) => v,
        None => {
            st.bad += 1;
            return;
        },
    };
    let mut c = C::new();
    c.set_value("a".into(), v.clone()).unwrap();
    // neighbours of the name `a` that a normalising (de)serialiser would merge with it: letter case, a trailing blank
    c.set_value("A".into(), Value::Int(3)).unwrap();
    c.set_value("a ".into(), Value::Boolean(true)).unwrap();
    // names a text format has to escape
    c.set_value("x'".into(), Value::Int(4)).unwrap();
    c.set_value("q\"\\\n".into(), Value::Empty).unwrap();
    c.set_function("f".into(), make_function("id", None)).unwrap();
    c.set_builtin_functions_disabled(case.get("nb").bool()).unwrap();
    match round_trip(&c) {
        Ok(c2) => {
            let got = projection(&c2, &["f".to_string()]);
            let want = (
                case.get("nb").bool(),
                vec![
                    ("A".to_string(), Value::Int(3)),
                    ("a".to_string(), v.clone()),
                    ("a ".to_string(), Value::Boolean(true)),
                    ("q\"\\\n".to_string(), Value::Empty),
                    ("x'".to_string(), Value::Int(4)),
                ],
                vec![],
            );
            if !same_projection(&got, &want) {
                st.fail("serde_context", format!("a context holding a = {v:?} comes back as {got:?}"), raw);
            }
        },
        Err(e) => st.fail("serde_context", format!("a context holding a = {v:?}: {e}"), raw),
    }
}

fn main() {
    let args: Vec<String> = std::env::args().collect();
    let out = args.iter().position(|a| a == "--out").and_then(|i| args.get(i + 1)).expect("--out").clone();
    let log = args.iter().position(|a| a == "--tlc-log").and_then(|i| args.get(i + 1)).cloned();
    std::panic::set_hook(Box::new(|_| {}));
    let mut logw = log.map(|p| std::fs::File::create(p).expect("log"));
    let mut st = State::default();
    long_documents(&mut st);
    let rejected = rejected_documents();
    for _ in 0..rejected {
        st.count("rejected_documents_first");
    }
    let stdin = std::io::stdin();
    for line in stdin.lock().lines() {
        let line = match line {
            Ok(l) => l,
            Err(_) => break,
        };
        let l = line.trim_end();
        let inner = if l.starts_with("\"{") {
            match json::parse(l) {
                Some(J::Str(s)) => s,
                _ => {
                    st.bad += 1;
                    continue;
                },
            }
        } else if l.starts_with('{') {
            l.to_string()
        } else {
            if let Some(w) = logw.as_mut() {
                use std::io::Write;
                let _ = writeln!(w, "{}", l);
            }
            continue;
        };
        let case = match json::parse(&inner) {
            Some(c) => c,
            None => {
                st.bad += 1;
                continue;
            },
        };
        st.cases += 1;
        match case.get("kind").str() {
            "parse" => run_parse(&mut st, &case, &inner),
            "history" => run_history(&mut st, &case, &inner),
            "serde_value" => run_value(&mut st, &case, &inner),
            _ => st.count("unknown_kind"),
        }
    }
    // summary in the format of the main harness
    let map = |m: &BTreeMap<String, u64>| m.iter().map(|(k, v)| format!("{}:{}", esc(k), v)).collect::<Vec<_>>().join(",");
    let distinct = st.distinct.iter().map(|(k, v)| format!("{}:{}", esc(k), v.len())).collect::<Vec<_>>().join(",");
    let total: u64 = st.failure_checks.values().sum();
    let failures = st
        .failures
        .iter()
        .map(|(c, d, raw)| format!("{{\"check\":{},\"detail\":{},\"case\":{},\"observed\":null,\"finding_key\":null}}", esc(c), esc(d), raw))
        .collect::<Vec<_>>()
        .join(",");
    let summary = format!(
        "{{\"cases\":{},\"bad_lines\":{},\"counters\":{{{}}},\"distinct\":{{{}}},\"failure_count\":{},\"failure_checks\":{{{}}},\"failures\":[{}],\"samples\":{{\"serde\":[{}]}}}}",
        st.cases,
        st.bad,
        map(&st.counters),
        distinct,
        total,
        map(&st.failure_checks),
        failures,
        st.samples.join(",")
    );
    std::fs::write(out, summary).expect("write summary");
}
