------------------------------- MODULE Lexer -------------------------------
(***************************************************************************)
(* The normative lexer: source text (code points) to the tokens of         *)
(* Grammar.tla.  It is written as a position-based recursion over the      *)
(* text, not as a transcription of the crate's two-pass partial-token      *)
(* machine (src/token/mod.rs).                                             *)
(*                                                                         *)
(*   "..."      string literal; \\ and \" are the only escapes, any other  *)
(*              escape and a missing closing quote are errors;             *)
(*   // ... NL  and  /* ... */   comments: separators, like whitespace     *)
(*              (an unterminated block comment is an error);               *)
(*   whitespace every Unicode White_Space character;                       *)
(*   operators  formed greedily from the sixteen special characters;       *)
(*   words      maximal runs of other characters: decimal / 0x-hex integer *)
(*              within i64, float (D+ [. D*] | . D+) [eE D+], the          *)
(*              three-piece form <coeff>e +|- <digits> (the sign is a      *)
(*              special character, so the literal spans three pieces),     *)
(*              true / false, otherwise an identifier.                     *)
(*                                                                         *)
(* Named deviation RustFloatWord: the crate parses floats with Rust's      *)
(* f64::from_str, which also accepts inf / infinity / nan in any letter    *)
(* case; the documentation makes those identifiers.  The lexer follows     *)
(* the documentation and flags the input (`kf1`), see KNOWN_FINDINGS.txt.  *)
(* A decimal digit string outside the i64 range is not documented; the     *)
(* lexer follows the crate (it becomes a float) and flags the input as     *)
(* `unclaimed`.  A 0x word outside the range is an ordinary word, i.e. an  *)
(* identifier, as the documentation says of "any other word".              *)
(***************************************************************************)
EXTENDS Grammar, Prim

\* ---- environment primitive: the double denoted by a float-looking word (Rust's f64::from_str)
ParseFloatWord(w) == Prim1("fparse", w)

PLUS == 43   MINUS == 45   STAR == 42   SLASH == 47   PCT == 37   HAT == 94
LPAR == 40   RPAR == 41    COMMA == 44  SEMI == 59    EQ == 61    BANG == 33
GT == 62     LT == 60      AMP == 38    BAR == 124    DOT == 46
OpChars == {PLUS, MINUS, STAR, SLASH, PCT, HAT, LPAR, RPAR, COMMA, SEMI, EQ, BANG, GT, LT, AMP, BAR}
IsWordChar(c) == c # 0 /\ c \notin OpChars /\ c \notin WhiteSpace /\ c # QUOTE
CharAt(s, p) == IF p >= 1 /\ p <= Len(s) THEN s[p] ELSE 0

LFail(e) == [ok |-> FALSE, toks |-> <<>>, err |-> e, kf1 |-> FALSE, unclaimed |-> FALSE]

\* ---- string literals: position after the closing quote and the denoted text
RECURSIVE ScanStr(_, _, _)
ScanStr(s, p, acc) ==
  IF p > Len(s) THEN [ok |-> FALSE, pos |-> 0, txt |-> <<>>, err |-> "UnmatchedDoubleQuote"]
  ELSE IF s[p] = QUOTE THEN [ok |-> TRUE, pos |-> p + 1, txt |-> acc, err |-> ""]
  ELSE IF s[p] = BSL THEN
         IF CharAt(s, p + 1) \in {QUOTE, BSL} THEN ScanStr(s, p + 2, Append(acc, s[p + 1]))
         ELSE [ok |-> FALSE, pos |-> 0, txt |-> <<>>, err |-> "IllegalEscapeSequence"]
  ELSE ScanStr(s, p + 1, Append(acc, s[p]))

\* ---- comments
RECURSIVE SkipLine(_, _)
SkipLine(s, p) == IF p > Len(s) THEN p ELSE IF s[p] = NL THEN p + 1 ELSE SkipLine(s, p + 1)
RECURSIVE SkipBlock(_, _)
SkipBlock(s, p) == IF p + 1 > Len(s) THEN 0
                   ELSE IF s[p] = STAR /\ s[p + 1] = SLASH THEN p + 2 ELSE SkipBlock(s, p + 1)

\* ---- operators, formed greedily: [len, o]
OpChar1(c) == CASE c = PLUS -> "+" [] c = MINUS -> "-" [] c = STAR -> "*" [] c = SLASH -> "/" [] c = PCT -> "%"
                [] c = HAT -> "^" [] c = LPAR -> "(" [] c = RPAR -> ")" [] c = COMMA -> "," [] c = SEMI -> ";"
                [] c = EQ -> "=" [] c = BANG -> "!" [] c = GT -> ">" [] c = LT -> "<"
OpWithEq(c) == CASE c = PLUS -> "+=" [] c = MINUS -> "-=" [] c = STAR -> "*=" [] c = SLASH -> "/=" [] c = PCT -> "%="
                 [] c = HAT -> "^=" [] c = EQ -> "==" [] c = BANG -> "!=" [] c = GT -> ">=" [] c = LT -> "<="
MatchOp(s, p) ==
  LET c == s[p]  n == CharAt(s, p + 1)  nn == CharAt(s, p + 2) IN
  IF c \in {AMP, BAR} THEN
     IF n = c THEN (IF nn = EQ THEN [len |-> 3, o |-> IF c = AMP THEN "&&=" ELSE "||="]
                    ELSE [len |-> 2, o |-> IF c = AMP THEN "&&" ELSE "||"])
     ELSE [len |-> 0, o |-> ""]                                  \* a single & or | is not a token
  ELSE IF c \in {LPAR, RPAR, COMMA, SEMI} THEN [len |-> 1, o |-> OpChar1(c)]
  ELSE IF n = EQ THEN [len |-> 2, o |-> OpWithEq(c)]
  ELSE [len |-> 1, o |-> OpChar1(c)]

\* ---- words
RECURSIVE WordEnd(_, _)
WordEnd(s, p) == IF IsWordChar(CharAt(s, p)) THEN WordEnd(s, p + 1) ELSE p
Digit(c) == c >= 48 /\ c <= 57
HexDigit(c) == Digit(c) \/ (c >= 97 /\ c <= 102) \/ (c >= 65 /\ c <= 70)
HexVal(c) == IF Digit(c) THEN c - 48 ELSE IF c >= 97 THEN c - 87 ELSE c - 55
AllDigits(w) == Len(w) > 0 /\ \A i \in 1..Len(w) : Digit(w[i])
LooksDec(w) == AllDigits(w)
LooksHex(w) == Len(w) > 2 /\ w[1] = 48 /\ w[2] = 120 /\ \A i \in 3..Len(w) : HexDigit(w[i])
DecValue(w) == FromDigits([i \in 1..Len(w) |-> w[i] - 48], 10)                 \* [ok, v]
HexValue(w) == FromDigits([i \in 1..(Len(w) - 2) |-> HexVal(w[i + 2])], 16)
\* float grammar:  (D+ (. D*)? | . D+) ([eE] [+-]? D+)?
RECURSIVE DigitsEnd(_, _)
DigitsEnd(w, p) == IF Digit(CharAt(w, p)) THEN DigitsEnd(w, p + 1) ELSE p
IsFloatText(w) ==
  LET a == DigitsEnd(w, 1)
      hasInt == a > 1
      b == IF CharAt(w, a) = DOT THEN DigitsEnd(w, a + 1) ELSE a
      hasFrac == CharAt(w, a) = DOT /\ b > a + 1
      mantOk == hasInt \/ hasFrac
      e == CharAt(w, b) \in {101, 69}
      c0 == IF e THEN (IF CharAt(w, b + 1) \in {PLUS, MINUS} THEN b + 2 ELSE b + 1) ELSE b
      c == IF e THEN DigitsEnd(w, c0) ELSE b
  IN mantOk /\ (IF e THEN c > c0 ELSE TRUE) /\ c = Len(w) + 1
LowerWord(w) == AsciiLower(w)
RustFloatWords == {<<105, 110, 102>>, <<105, 110, 102, 105, 110, 105, 116, 121>>, <<110, 97, 110>>}
IsRustFloatWord(w) == LowerWord(w) \in RustFloatWords

\* a word that is a value by itself
WordIsValue(w) == LooksDec(w) \/ (LooksHex(w) /\ HexValue(w).ok) \/ IsFloatText(w) \/ w = TrueText \/ w = FalseText
WordToken(w) ==
  IF LooksDec(w) THEN (LET r == DecValue(w) IN IF r.ok THEN TLit(VInt(r.v), w) ELSE TLit(VFloat(ParseFloatWord(w)), w))
  ELSE IF LooksHex(w) /\ HexValue(w).ok THEN TLit(VInt(HexValue(w).v), w)
  ELSE IF IsFloatText(w) THEN TLit(VFloat(ParseFloatWord(w)), w)
  ELSE IF w = TrueText THEN TLit(VBool(TRUE), w)
  ELSE IF w = FalseText THEN TLit(VBool(FALSE), w)
  ELSE TId(w)
\* a digit string beyond i64 is documented neither as integer nor as float (the crate makes it a float): not claimed.
\* A 0x word beyond i64 is simply "any other word": an identifier.
WordUnclaimed(w) == LooksDec(w) /\ ~DecValue(w).ok

RECURSIVE LexFrom(_, _, _, _, _)
LexFrom(s, p, out, kf1, unc) ==
  IF p > Len(s) THEN [ok |-> TRUE, toks |-> out, err |-> "", kf1 |-> kf1, unclaimed |-> unc]
  ELSE LET c == s[p] IN
    IF c = QUOTE THEN
        LET r == ScanStr(s, p + 1, <<>>) IN
        IF r.ok THEN LexFrom(s, r.pos, Append(out, TLit(VStr(r.txt), SubSeq(s, p, r.pos - 1))), kf1, unc)
        ELSE LFail(r.err)
    ELSE IF c = SLASH /\ CharAt(s, p + 1) = SLASH THEN LexFrom(s, SkipLine(s, p + 2), out, kf1, unc)
    ELSE IF c = SLASH /\ CharAt(s, p + 1) = STAR THEN
        LET q == SkipBlock(s, p + 2) IN
        IF q = 0 THEN LFail("UnterminatedComment") ELSE LexFrom(s, q, out, kf1, unc)
    ELSE IF c \in WhiteSpace THEN LexFrom(s, p + 1, out, kf1, unc)
    ELSE IF c \in OpChars THEN
        LET m == MatchOp(s, p) IN
        IF m.len = 0 THEN LFail("UnmatchedPartialToken")
        ELSE LexFrom(s, p + m.len, Append(out, TOp(m.o)), kf1, unc)
    ELSE
        LET q == WordEnd(s, p)
            w == SubSeq(s, p, q - 1)
        IN IF WordIsValue(w) THEN LexFrom(s, q, Append(out, WordToken(w)), kf1, unc \/ WordUnclaimed(w))
           ELSE IF CharAt(s, q) \in {PLUS, MINUS} /\ IsWordChar(CharAt(s, q + 1))
                THEN LET q2 == WordEnd(s, q + 1)
                         j == w \o <<s[q]>> \o SubSeq(s, q + 1, q2 - 1)
                     IN IF IsFloatText(j)
                        THEN LexFrom(s, q2, Append(out, TLit(VFloat(ParseFloatWord(j)), j)), kf1, unc)
                        ELSE LexFrom(s, q, Append(out, TId(w)), kf1 \/ IsRustFloatWord(w), unc \/ WordUnclaimed(w))
           ELSE LexFrom(s, q, Append(out, TId(w)), kf1 \/ IsRustFloatWord(w), unc \/ WordUnclaimed(w))

Lex(s) == LexFrom(s, 1, <<>>, FALSE, FALSE)
=============================================================================
