------------------------------- MODULE MC_Ctx -------------------------------
(***************************************************************************)
(* C04 (and the context half of C09 / C16): histories of context           *)
(* operations on a HashMapContext and one clone of it.                     *)
(*                                                                         *)
(* State = the abstract contexts of the two slots.  The history that led   *)
(* to a state (hist) is hidden from the fingerprint by the VIEW, so TLC    *)
(* explores the abstract state graph; every transition it evaluates is     *)
(* emitted together with the (shortest) history that reaches its source    *)
(* state, and the harness replays the whole history on real contexts,      *)
(* comparing the return value and the complete projection of both slots    *)
(* after EVERY step.                                                       *)
(*                                                                         *)
(* Operations: set_value; expression assignment with each of the nine      *)
(* assignment operators; read by expression and by get_value; the three    *)
(* clears; set_function; calling a function; the builtin switch; clone.    *)
(***************************************************************************)
EXTENDS Api
CONSTANTS Size,          \* "small" | "full"
          WithSerde      \* include the serialise / deserialise round trip as an operation (C16 harness only)
VARIABLES ctxs, hist

NA == <<97>>
NB == <<98>>
NF == <<102>>
\* "small": one name, two slots; "names2": two names, one slot (no clone); "zeros": one name, one slot, the zero values; "full": two names, two slots (simulation only)
Names == IF Size \in {"small", "zeros"} THEN {NA} ELSE {NA, NB}
FuncNames == IF Size = "full" THEN {NF, NA} ELSE IF Size = "names2" THEN {NA}
             ELSE IF Size = "zeros" THEN {NF, <<109, 97, 120>>} ELSE {NF}              \* a function may share a variable's name

\* values with a source form: [v |-> value, t |-> tokens]
Lit(v, x) == [v |-> v, t |-> <<TLit(v, x)>>]
F15 == <<16376, 0, 0, 0>>
F25 == <<16388, 0, 0, 0>>
SS == <<115>>
ST == <<116>>
Tup2 == [v |-> VTuple(<<VNat(1), VNat(2)>>),
         t |-> <<TOp("("), TLit(VNat(1), <<49>>), TOp(","), TLit(VNat(2), <<50>>), TOp(")")>>]
Tup3 == [v |-> VTuple(<<VBool(TRUE), VStr(SS), VNat(2)>>),
         t |-> <<TOp("("), TLit(VBool(TRUE), TrueText), TOp(","), TLit(VStr(SS), QuoteText(SS)), TOp(","), TLit(VNat(2), <<50>>), TOp(")")>>]
EmptyV == [v |-> VEmpty, t |-> <<TOp("("), TOp(")")>>]
ValsSmall == {Lit(VNat(1), <<49>>), Lit(VNat(2), <<50>>), Lit(VFloat(F15), <<49, 46, 53>>), Lit(VStr(SS), QuoteText(SS)),
              Lit(VBool(TRUE), TrueText), Tup2, Tup3, EmptyV}
ValsFull == ValsSmall \cup {Lit(VFloat(F25), <<50, 46, 53>>), Lit(VStr(ST), QuoteText(ST)), Lit(VBool(FALSE), FalseText)}
\* "zeros": values that are equal under == but distinguishable (the sign of zero, alone and inside a tuple): an assignment
\* must store the NEW value even when it compares equal to the old one
FZ == <<0, 0, 0, 0>>
FNZ == <<32768, 0, 0, 0>>
ZeroLit == TLit(VFloat(FZ), <<48, 46, 48>>)
ValsZeros == {Lit(VFloat(FZ), <<48, 46, 48>>), [v |-> VFloat(FNZ), t |-> <<TOp("-"), ZeroLit>>],
              [v |-> VTuple(<<VNat(1), VFloat(FZ)>>), t |-> <<TOp("("), TLit(VNat(1), <<49>>), TOp(","), ZeroLit, TOp(")")>>],
              [v |-> VTuple(<<VNat(1), VFloat(FNZ)>>), t |-> <<TOp("("), TLit(VNat(1), <<49>>), TOp(","), TOp("-"), ZeroLit, TOp(")")>>],
              Lit(VNat(1), <<49>>)}
\* "names2" also assigns values whose source form itself assigns the OTHER variable: x op= (b = 2; 3) - the right-hand side of
\* every assignment operator is evaluated with the same (mutable) rights as the assignment
NestB == [v |-> VNat(2), t |-> <<TOp("("), TId(NB), TOp("="), TLit(VNat(1), <<49>>), TOp(";"), TLit(VNat(2), <<50>>), TOp(")")>>]
Vals == IF Size = "full" THEN ValsFull ELSE IF Size = "zeros" THEN ValsZeros
        ELSE IF Size = "names2" THEN ValsSmall \cup {NestB} ELSE ValsSmall
\* "zeros" also has two behaviours per function name (a function that is bound again must be replaced) and the name of
\* a builtin among the function names (max: defining and clearing it changes what `max(1, 2)` resolves to)
Behs == IF Size \in {"full", "zeros"} THEN {BehId, BehConst(VNat(1))} ELSE {BehId}

Absent == [kind |-> "Absent", vars |-> EmptyMap, funcs |-> EmptyMap, nb |-> FALSE]
Slots == {0, 1}
Live(s) == ctxs[s].kind # "Absent"

\* ---- a call: uniform record
Call(op, s) == [op |-> op, slot |-> s, n |-> <<>>, v |-> VEmpty, toks |-> <<>>, b |-> BehId, d |-> FALSE, mode |-> "mut"]
ResUnit == Ok(VEmpty)
NoneRes == Er(ErrBase("None"))

\* the effect of one call on the contexts: [ctxs, obs]
Step(cs, c) ==
  LET x == cs[c.slot] IN
  CASE c.op = "set_value" ->
         LET r == SetValue(x, c.n, c.v) IN
         [ctxs |-> [cs EXCEPT ![c.slot] = r.ctx], obs |-> IF r.ok THEN ResUnit ELSE Er(r.e)]
    [] c.op = "eval" ->
         LET b == BuildToks(c.toks)
             r == Core(c.mode, b.tree, St(x, <<>>)) IN
         [ctxs |-> [cs EXCEPT ![c.slot] = r.st.ctx], obs |-> r.r]
    [] c.op = "get_value" -> [ctxs |-> cs, obs |-> IF c.n \in DOMAIN x.vars THEN Ok(x.vars[c.n]) ELSE NoneRes]
    [] c.op = "clear_variables" -> [ctxs |-> [cs EXCEPT ![c.slot] = ClearVariables(x)], obs |-> ResUnit]
    [] c.op = "clear_functions" -> [ctxs |-> [cs EXCEPT ![c.slot] = ClearFunctions(x)], obs |-> ResUnit]
    [] c.op = "clear" -> [ctxs |-> [cs EXCEPT ![c.slot] = ClearAll(x)], obs |-> ResUnit]
    [] c.op = "set_function" -> [ctxs |-> [cs EXCEPT ![c.slot] = SetFunction(x, c.n, c.b)], obs |-> ResUnit]
    [] c.op = "set_builtins" ->
         LET r == SetBuiltinsDisabled(x, c.d) IN [ctxs |-> [cs EXCEPT ![c.slot] = r.ctx], obs |-> ResUnit]
    [] c.op = "clone" -> [ctxs |-> [cs EXCEPT ![1 - c.slot] = x], obs |-> ResUnit]
    [] c.op = "serde" -> [ctxs |-> [cs EXCEPT ![c.slot] = SerdeProjection(x)], obs |-> ResUnit]

AssignToks(n, o, val) == <<TId(n), TOp(o)>> \o val.t
Calls(s) ==
     {[Call("set_value", s) EXCEPT !.n = n, !.v = val.v] : n \in Names, val \in Vals}
  \cup {[Call("eval", s) EXCEPT !.toks = AssignToks(n, o, val), !.n = n] : n \in Names, o \in AssignOps, val \in Vals}
  \cup {[Call("eval", s) EXCEPT !.toks = <<TId(n)>>, !.mode = "imm", !.n = n] : n \in Names}
  \cup {[Call("eval", s) EXCEPT !.toks = <<TId(n), TOp("("), TLit(VNat(2), <<50>>), TOp(")")>>, !.mode = "imm", !.n = n] : n \in FuncNames}
  \cup {[Call("eval", s) EXCEPT !.toks = <<TId(<<109, 97, 120>>), TOp("("), TLit(VNat(1), <<49>>), TOp(","), TLit(VNat(2), <<50>>), TOp(")")>>,
                                !.mode = "imm"]}                                     \* max(1, 2): the builtin switch
  \cup {[Call("get_value", s) EXCEPT !.n = n] : n \in Names}
  \cup {Call("clear_variables", s), Call("clear_functions", s), Call("clear", s), Call("serde", s)}
  \cup (IF Size \in {"names2", "zeros"} THEN {} ELSE {Call("clone", s)})
  \cup {[Call("set_function", s) EXCEPT !.n = n, !.b = b] : n \in FuncNames, b \in Behs}
  \cup {[Call("set_builtins", s) EXCEPT !.d = d] : d \in BOOLEAN}

Init == ctxs = [s \in Slots |-> IF s = 0 THEN NewHashMap ELSE Absent] /\ hist = <<>>

CallJson(c) == [op |-> c.op, slot |-> c.slot, n |-> c.n, v |-> JVal(c.v), toks |-> TokTexts(c.toks), b |-> c.b.b, bv |-> JVal(c.b.v),
                d |-> c.d, mode |-> c.mode]
PostJson(cs) == [s \in Slots |-> IF cs[s].kind = "Absent" THEN [kind |-> "Absent"] ELSE CtxJson(cs[s])]
Entry(c, r) == [call |-> CallJson(c), obs |-> JPat(PatOf(r.obs))]

DoCall(s, c) ==
  LET r == Step(ctxs, c) IN
  /\ ctxs' = r.ctxs
  /\ hist' = Append(hist, Entry(c, r))
  \* the emitted case: the calls that lead here with their observations, and the projection of both slots after the last one
  /\ PrintT(ToJson([kind |-> "history", check |-> "history", steps |-> hist',
                     post |-> <<PostJson(r.ctxs)[0], PostJson(r.ctxs)[1]>>]))

\* one disjunct per kind of call, so that TLC's coverage shows each being exercised
Do(kind) == \E s \in Slots : Live(s) /\ \E c \in {c \in Calls(s) : c.op = kind} : DoCall(s, c)
SetValueStep == Do("set_value")
EvalStep == Do("eval")
GetValueStep == Do("get_value")
ClearVariablesStep == Do("clear_variables")
ClearFunctionsStep == Do("clear_functions")
ClearStep == Do("clear")
SetFunctionStep == Do("set_function")
SetBuiltinsStep == Do("set_builtins")
CloneStep == Do("clone")
SerdeStep == WithSerde /\ Do("serde")
Next == SetValueStep \/ EvalStep \/ GetValueStep \/ ClearVariablesStep \/ ClearFunctionsStep \/ ClearStep
        \/ SetFunctionStep \/ SetBuiltinsStep \/ CloneStep \/ SerdeStep
View == ctxs
\* op-assignments compute new values (a += 1 forever); histories are explored only while every bound value stays in
\* the finite value domain (the transition that leaves it is still evaluated, emitted and replayed)
DomainValues == {val.v : val \in ValsFull \cup ValsZeros}
InDomain == \A s \in Slots : \A n \in DOMAIN ctxs[s].vars : ctxs[s].vars[n] \in DomainValues

(***************************************************************************)
(* The property, stated on the design (action properties, checked by TLC   *)
(* on every transition).                                                   *)
(***************************************************************************)
LastCall == hist'[Len(hist')].call
LastObs == hist'[Len(hist')].obs
\* a bound variable changes its type only across a clear (or when the slot is replaced by a clone)
TypeStable ==
  [][\A s \in Slots : \A n \in Names :
       (Live(s) /\ n \in DOMAIN ctxs[s].vars /\ n \in DOMAIN ctxs'[s].vars
        /\ ~(LastCall.op \in {"clear", "clear_variables"}) /\ ~(LastCall.op = "clone" /\ LastCall.slot # s))
       => ctxs'[s].vars[n].t = ctxs[s].vars[n].t]_<<ctxs, hist>>
\* a failed call leaves every context unchanged - unless its own source text contains a completed inner assignment
\* (x = (b = 1; 2): what was evaluated before the failure persists, C08); nothing is claimed here for those
FailedCallAtomic ==
  [][LastObs.p = "err" /\ ~(\E i \in 3..Len(LastCall.toks) : LastCall.toks[i] = OpText["="]) => ctxs' = ctxs]_<<ctxs, hist>>
\* an operation on one slot leaves the other unchanged, except clone
CloneIndependent == [][\A s \in Slots : (LastCall.slot # s /\ LastCall.op # "clone") => ctxs'[s] = ctxs[s]]_<<ctxs, hist>>
\* functions and the switch are untouched by variable operations, and variables by function operations
NamespacesSeparate ==
  [][\A s \in Slots : Live(s) =>
       /\ (LastCall.op \in {"set_value", "eval", "get_value", "clear_variables"} => ctxs'[s].funcs = ctxs[s].funcs /\ ctxs'[s].nb = ctxs[s].nb)
       /\ (LastCall.op \in {"set_function", "clear_functions", "set_builtins"} => ctxs'[s].vars = ctxs[s].vars)]_<<ctxs, hist>>
\* the last successfully assigned value is what is read
TypeOK == \A s \in Slots : \A n \in DOMAIN ctxs[s].vars : IsValue(ctxs[s].vars[n])
=============================================================================
