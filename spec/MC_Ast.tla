------------------------------- MODULE MC_Ast -------------------------------
(***************************************************************************)
(* C02: expression ASTs over all 14 binary, 2 prefix and 9 assignment      *)
(* operators and function application.  An initial state is an AST of      *)
(* depth <= 1 (a leaf, or one operator over leaves: 82 ASTs); a step puts  *)
(* it under one more operator, in either child position, next to a sibling *)
(* of depth <= 1 - so every ordered pair of operators occurs in both child *)
(* positions.  Every AST is rendered in three ways (minimal parentheses,   *)
(* call arguments parenthesised, every operand parenthesised).             *)
(* Theorem of the specification: each rendering parses back to the AST.    *)
(* Conformance: build_operator_tree of each rendering must give the AST.   *)
(***************************************************************************)
EXTENDS Api
CONSTANT Siblings            \* "few" (one representative per precedence level) | "all" | "cater" (depth-3 caterpillars)
VARIABLES a, lvl

NX == <<120>>
NFn == <<102>>
L1 == NConst(VNat(1), <<49>>)
LX == NLeaf("Read", NX)
Leaves == {L1, LX}
Bin(o, l, r) == NOp(o, <<l, r>>)
Asg(o, r) == NOp(o, <<NLeaf("Write", NX), r>>)
CallN(x) == N("Call", NFn, VEmpty, <<x>>)
Over(S) == {Bin(o, l, r) : o \in PlainBinNodes, l \in S, r \in S} \cup {NOp(o, <<x>>) : o \in {"Neg", "Not"}, x \in S}
           \cup {Asg(o, x) : o \in AssignNodes, x \in S} \cup {CallN(x) : x \in S}
Depth1 == Leaves \cup Over(Leaves)
Few == Leaves \cup {Bin(o, L1, LX) : o \in {"Exp", "Mul", "Sub", "Lt", "And", "Or"}} \cup {NOp("Neg", <<LX>>), Asg("Assign", L1),
                                                                                           Asg("MulAssign", L1), CallN(LX)}
\* "mid": every binary operator once (not only one per precedence level), so that each operator's own table entry is exercised
Mid == Few \cup {Bin(o, L1, LX) : o \in PlainBinNodes} \cup {NOp("Not", <<LX>>)}
Sibs == IF Siblings = "few" THEN Few ELSE IF Siblings = "mid" THEN Mid ELSE Depth1
Grow(x) == {Bin(o, x, b) : o \in PlainBinNodes, b \in Sibs} \cup {Bin(o, b, x) : o \in PlainBinNodes, b \in Sibs}
           \cup {NOp(o, <<x>>) : o \in {"Neg", "Not"}} \cup {Asg(o, x) : o \in AssignNodes} \cup {CallN(x)}

\* caterpillars: three operators stacked on a leaf, one representative operator per precedence level, leaf siblings
RepBin == {"Exp", "Mul", "Sub", "Lt", "And", "Or"}
GrowRep(x) == {Bin(o, x, b) : o \in RepBin, b \in Leaves} \cup {Bin(o, b, x) : o \in RepBin, b \in Leaves}
              \cup {NOp("Neg", <<x>>), NOp("Not", <<x>>), Asg("Assign", x), Asg("SubAssign", x), CallN(x)}
Init == lvl = 1 /\ a \in (IF Siblings = "cater" THEN UNION {GrowRep(x) : x \in Leaves} ELSE Depth1)
Next == IF Siblings = "cater" THEN lvl < 3 /\ lvl' = lvl + 1 /\ a' \in GrowRep(a)
        ELSE lvl = 1 /\ lvl' = 2 /\ a' \in Grow(a)

Styles == {Minimal, CallParens, AllParens}
Case(opt) == [kind |-> "parse", check |-> "wf_tree", toks |-> TokTexts(Render(a, opt)), class |-> "WF", bal |-> TRUE,
              tree |-> JTree(a), occ |-> Occurrences(a)]
Emit == \A opt \in Styles : PrintT(ToJson(Case(opt)))

SpecTheorems ==
  /\ WFAst(a)
  /\ \A opt \in Styles : Classify(Render(a, opt)) = [class |-> "WF", tree |-> a]
=============================================================================
