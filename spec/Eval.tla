-------------------------------- MODULE Eval --------------------------------
(***************************************************************************)
(* Contexts and the evaluator.                                             *)
(*                                                                         *)
(* A context is [kind, vars, funcs, nb]:                                   *)
(*   kind   "HashMap" | "Empty" | "EmptyBuiltin" (the three provided) |    *)
(*          "ReadOnly" (a harness-defined context that answers reads from  *)
(*          a map but keeps the trait's default set_value) ;               *)
(*   vars   identifier -> Value (the variant is the variable's type);      *)
(*   funcs  identifier -> user-function behaviour [b, v] (separate         *)
(*          namespace);   nb  builtin functions disabled?                  *)
(* The evaluation state threads [ctx, log]; log is the ordered list of     *)
(* user-function calls <<name, argument>>.                                 *)
(*                                                                         *)
(* Eval(node, st, mode): post-order, children left to right, each exactly  *)
(* once, stop at the first error (its effects so far persist), then apply  *)
(* the operator.  mode = "mut" | "imm": in "imm" reaching an assignment    *)
(* operator - after its operands were evaluated - yields ContextNotMutable.*)
(***************************************************************************)
EXTENDS Builtins, Grammar

EmptyMap == [x \in {} |-> VEmpty]
MapSet(m, n, v) == [x \in (DOMAIN m) \cup {n} |-> IF x = n THEN v ELSE m[x]]

HashMapCtx(vars, funcs, nb) == [kind |-> "HashMap", vars |-> vars, funcs |-> funcs, nb |-> nb]
NewHashMap == HashMapCtx(EmptyMap, EmptyMap, FALSE)
EmptyCtx == [kind |-> "Empty", vars |-> EmptyMap, funcs |-> EmptyMap, nb |-> TRUE]
EmptyBuiltinCtx == [kind |-> "EmptyBuiltin", vars |-> EmptyMap, funcs |-> EmptyMap, nb |-> FALSE]
ReadOnlyCtx(c) == [c EXCEPT !.kind = "ReadOnly"]

\* user-function behaviours
Beh(b, v) == [b |-> b, v |-> v]
BehId == Beh("id", VEmpty)                      \* returns its argument
BehConst(v) == Beh("const", v)                  \* returns v
BehFail == Beh("fail", VEmpty)                  \* fails with CustomMessage("boom")
BehNotFound == Beh("nf", VEmpty)                \* fails with FunctionIdentifierNotFound("zz")  (KF-2)
BehInc == Beh("inc", VEmpty)                    \* int argument + 1 (checked), else ExpectedInt
Boom == <<98, 111, 111, 109>>
ZZ == <<122, 122>>
RunBehaviour(f, arg) ==
  CASE f.b = "id" -> Ok(arg)
    [] f.b = "const" -> Ok(f.v)
    [] f.b = "fail" -> Er(CustomMessage(Boom))
    [] f.b = "nf" -> Er(FunctionIdentifierNotFound(ZZ))
    [] f.b = "inc" -> IF arg.t # "Int" THEN Er(ExpectedInt(arg))
                      ELSE LET r == Add(arg.i, FromNat(1)) IN
                           IF r.ok THEN Ok(VInt(r.v)) ELSE Er(ErrAB("AdditionError", arg, VNat(1)))

(***************************************************************************)
(* Context operations (src/context/mod.rs)                                 *)
(***************************************************************************)
\* ContextWithMutableVariables::set_value -> [ok, ctx, e]
SetValue(c, n, v) ==
  IF c.kind # "HashMap" THEN [ok |-> FALSE, ctx |-> c, e |-> ContextNotMutable]
  ELSE IF n \in DOMAIN c.vars /\ c.vars[n].t # v.t
       THEN [ok |-> FALSE, ctx |-> c, e |-> ExpectedTypeOf(c.vars[n], v)]          \* type safety: context unchanged
  ELSE [ok |-> TRUE, ctx |-> [c EXCEPT !.vars = MapSet(c.vars, n, v)], e |-> NoErr]
SetFunction(c, n, f) == [c EXCEPT !.funcs = MapSet(c.funcs, n, f)]
ClearVariables(c) == [c EXCEPT !.vars = EmptyMap]
ClearFunctions(c) == [c EXCEPT !.funcs = EmptyMap]
ClearAll(c) == [c EXCEPT !.vars = EmptyMap, !.funcs = EmptyMap]
\* Context::set_builtin_functions_disabled -> [ok, ctx, e]
SetBuiltinsDisabled(c, d) ==
  CASE c.kind = "Empty" -> IF d THEN [ok |-> TRUE, ctx |-> c, e |-> NoErr]
                           ELSE [ok |-> FALSE, ctx |-> c, e |-> ErrBase("BuiltinFunctionsCannotBeEnabled")]
    [] c.kind = "EmptyBuiltin" -> IF d THEN [ok |-> FALSE, ctx |-> c, e |-> ErrBase("BuiltinFunctionsCannotBeDisabled")]
                                  ELSE [ok |-> TRUE, ctx |-> c, e |-> NoErr]
    [] OTHER -> [ok |-> TRUE, ctx |-> [c EXCEPT !.nb = d], e |-> NoErr]
\* serde round trip: variables and switch survive, functions do not
SerdeProjection(c) == [c EXCEPT !.funcs = EmptyMap]

\* A user function observed rather than known (trace validation of executions with arbitrary closures): behaviour
\* [b |-> "oracle", v, rs], rs = the recorded calls of this function in order, [a: argument, r: result].  The k-th
\* call of the function in the specification's evaluation must carry the k-th recorded argument and yields the k-th
\* recorded result; any other call is answered with an error no real execution produces.
BehOracle(rs) == [b |-> "oracle", v |-> VEmpty, rs |-> rs]
OracleResult(f, log, n, arg) ==
  LET k == Len(SelectSeq(log, LAMBDA c : c.n = n)) + 1 IN
  IF k > Len(f.rs) THEN Er(ErrBase("OracleExhausted"))
  ELSE IF ~SameValue(f.rs[k].a, arg) THEN Er(ErrBase("OracleArgumentMismatch"))
  ELSE f.rs[k].r

\* `unc`: the evaluation applied a builtin or an operator to operands for which the documentation allows more than one
\* outcome (BuiltinAllowed / AltOutcomes: NaN in min / max, shift amounts outside 0..63, Int against Float orderings, ...).
\* Eval is deterministic - it picks one reading - so an observer that compares a RECORDED evaluation with Eval's result
\* must treat such an evaluation as undetermined (Trace_Api does).
St(c, log) == [ctx |-> c, log |-> log, unc |-> FALSE]
Res(r, st) == [r |-> r, st |-> st]

\* function resolution: the context's own function, else a builtin if enabled, else unknown
CallFunction(st, n, arg) ==
  IF n \in DOMAIN st.ctx.funcs
  THEN LET f == st.ctx.funcs[n]
           r == IF f.b = "oracle" THEN OracleResult(f, st.log, n, arg) ELSE RunBehaviour(f, arg)
           \* an observed user function that itself answers FunctionIdentifierNotFound: the crate then falls back to the builtin
           \* (named deviation KF-2, recorded for C09); what follows is not determined for an observer of other properties
           kf2 == f.b = "oracle" /\ ~r.ok /\ r.e.e = "FunctionIdentifierNotFound"
       IN Res(r, [st EXCEPT !.log = Append(st.log, [n |-> n, a |-> arg]), !.unc = @ \/ kf2])
  ELSE IF ~st.ctx.nb /\ IsBuiltinName(n)
       THEN LET r == ApplyBuiltin(BuiltinId[n], arg) IN
            Res(r, IF BuiltinAllowed(BuiltinId[n], arg) = {PatternOf(r)} THEN st ELSE [st EXCEPT !.unc = TRUE])
  ELSE Res(Er(FunctionIdentifierNotFound(n)), st)

PlainOf(o) == CASE o = "AddAssign" -> "Add" [] o = "SubAssign" -> "Sub" [] o = "MulAssign" -> "Mul"
                [] o = "DivAssign" -> "Div" [] o = "ModAssign" -> "Mod" [] o = "ExpAssign" -> "Exp"
                [] o = "AndAssign" -> "And" [] o = "OrAssign" -> "Or"

\* the operator of node n applied to the evaluated operands `vals` in state st
ApplyNode(n, vals, st, mode) ==
  CASE n.o = "Empty" -> Res(Ok(VEmpty), st)
    [] n.o = "Par" -> Res(Ok(IF Len(vals) = 0 THEN VEmpty ELSE vals[1]), st)
    [] n.o = "Const" -> IF Len(vals) # 0 THEN Res(Er(WrongOperatorArgumentAmount(Len(vals), 0)), st) ELSE Res(Ok(n.v), st)
    [] n.o = "Write" -> IF Len(vals) # 0 THEN Res(Er(WrongOperatorArgumentAmount(Len(vals), 0)), st) ELSE Res(Ok(VStr(n.n)), st)
    [] n.o = "Read" ->
         IF Len(vals) # 0 THEN Res(Er(WrongOperatorArgumentAmount(Len(vals), 0)), st)
         ELSE IF n.n \in DOMAIN st.ctx.vars THEN Res(Ok(st.ctx.vars[n.n]), st)
         ELSE Res(Er(VariableIdentifierNotFound(n.n)), st)
    [] n.o = "Call" ->
         IF Len(vals) # 1 THEN Res(Er(WrongOperatorArgumentAmount(Len(vals), 1)), st)
         ELSE CallFunction(st, n.n, vals[1])
    [] n.o = "Tuple" -> Res(Ok(VTuple(vals)), st)
    [] n.o = "Chain" -> IF Len(vals) = 0 THEN Res(Er(WrongOperatorArgumentAmount(0, 1)), st)
                        ELSE Res(Ok(vals[Len(vals)]), st)
    [] n.o \in AssignNodes ->
         IF mode = "imm" THEN Res(Er(ContextNotMutable), st)
         ELSE IF Len(vals) # 2 THEN Res(Er(WrongOperatorArgumentAmount(Len(vals), 2)), st)
         ELSE IF vals[1].t # "String" THEN Res(Er(ExpectedString(vals[1])), st)
         ELSE LET target == vals[1].s IN
              IF n.o = "Assign"
              THEN LET s == SetValue(st.ctx, target, vals[2]) IN
                   IF s.ok THEN Res(Ok(VEmpty), [st EXCEPT !.ctx = s.ctx]) ELSE Res(Er(s.e), st)
              ELSE \* x op= e  ==  x = x op e : the variable is read after e was evaluated
                   IF target \notin DOMAIN st.ctx.vars THEN Res(Er(VariableIdentifierNotFound(target)), st)
                   ELSE LET r == ApplyOp(PlainOf(n.o), <<st.ctx.vars[target], vals[2]>>) IN
                        IF ~r.ok THEN Res(r, st)
                        ELSE LET s == SetValue(st.ctx, target, r.v) IN
                             IF s.ok THEN Res(Ok(VEmpty), [st EXCEPT !.ctx = s.ctx]) ELSE Res(Er(s.e), st)
    [] OTHER -> LET r == ApplyOp(n.o, vals) IN
                Res(r, IF AltOutcomes(n.o, vals) \subseteq {r} THEN st ELSE [st EXCEPT !.unc = TRUE])

RECURSIVE Eval(_, _, _), EvalKids(_, _, _, _, _)
EvalKids(kids, i, st, mode, acc) ==
  IF i > Len(kids) THEN [ok |-> TRUE, vals |-> acc, st |-> st, e |-> NoErr]
  ELSE LET r == Eval(kids[i], st, mode) IN
       IF r.r.ok THEN EvalKids(kids, i + 1, r.st, mode, Append(acc, r.r.v))
       ELSE [ok |-> FALSE, vals |-> <<>>, st |-> r.st, e |-> r.r.e]          \* the first error wins
Eval(n, st, mode) ==
  LET ks == EvalKids(n.k, 1, st, mode, <<>>) IN
  IF ~ks.ok THEN Res(Er(ks.e), ks.st) ELSE ApplyNode(n, ks.vals, ks.st, mode)

\* does evaluating n in mutable mode reach an assignment operator (before finishing or failing)?
RECURSIVE ReachesAssign(_, _)
RECURSIVE ReachesAssignKids(_, _, _)
ReachesAssignKids(kids, i, st) ==        \* [hit, ok, st]
  IF i > Len(kids) THEN [hit |-> FALSE, ok |-> TRUE, st |-> st]
  ELSE LET h == ReachesAssign(kids[i], st) IN
       IF h.hit THEN h
       ELSE IF ~h.ok THEN h
       ELSE ReachesAssignKids(kids, i + 1, h.st)
ReachesAssign(n, st) ==
  LET ks == ReachesAssignKids(n.k, 1, st) IN
  IF ks.hit \/ ~ks.ok THEN ks
  ELSE IF n.o \in AssignNodes THEN [hit |-> TRUE, ok |-> TRUE, st |-> ks.st]
  ELSE LET r == Eval(n, st, "mut") IN [hit |-> FALSE, ok |-> r.r.ok, st |-> r.st]
=============================================================================
