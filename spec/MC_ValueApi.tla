---------------------------- MODULE MC_ValueApi ----------------------------
(***************************************************************************)
(* The accessor API of `Value` (src/value/mod.rs): as_string / as_int /    *)
(* as_float / as_number / as_boolean / as_tuple / as_empty, the length-    *)
(* checked tuple accessors, the is_* predicates, ValueType::from and       *)
(* str_from - all of them projections that Api.ProjectKind, Builtins.      *)
(* StrFrom and the tuple-length rules of Builtins.tla already define.      *)
(* Every pool value x every accessor is emitted with the outcome the       *)
(* specification gives; the harness calls the real method.  (Beyond the    *)
(* sixteen properties: it binds the accessors the entry points and         *)
(* builtins are made of.)                                                  *)
(***************************************************************************)
EXTENDS Api, Pools
VARIABLES v, acc

Accessors == {"string", "int", "float", "number", "boolean", "tuple", "empty", "fixed2", "ranged23", "type", "str_from"}
Init == v \in Pool /\ acc \in Accessors
Next == UNCHANGED <<v, acc>>

Outcome ==
  CASE acc \in EntryKinds -> ProjectKind(acc, Ok(v))                     \* as_<kind> = the typed entry point's projection
    [] acc = "fixed2" -> IF v.t # "Tuple" THEN Er(ExpectedTuple(v))
                         ELSE IF Len(v.k) # 2 THEN Er(ExpectedFixedLengthTuple(2, v)) ELSE Ok(v)
    [] acc = "ranged23" -> IF v.t # "Tuple" THEN Er(ExpectedTuple(v))
                           ELSE IF Len(v.k) \notin {2, 3} THEN Er(ExpectedRangedLengthTuple(2, 3, v)) ELSE Ok(v)
    [] acc = "type" -> Ok(VStr(TypeNameLower(v)))
    [] acc = "str_from" -> Ok(VStr(StrFrom(v)))
Emit == PrintT(ToJson([kind |-> "value_api", check |-> "value_api", v |-> JVal(v), acc |-> acc, allowed |-> {JPat(PatOf(Outcome))}]))
SpecTheorems == (Outcome.ok => IsValue(Outcome.v)) /\ (acc = "number" /\ v.t = "Int" => Outcome.v = VFloat(IntToFloat(v.i)))
=============================================================================
