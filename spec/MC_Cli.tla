------------------------------- MODULE MC_Cli -------------------------------
(***************************************************************************)
(* The command line program (src/bin/evalexpr.rs): the arguments are       *)
(* joined by single blanks, the text is evaluated in a fresh context, the  *)
(* Display text of the value and a line feed go to standard output and the *)
(* exit status is 0; any error gives a non-zero status and an empty        *)
(* standard output.  TLC enumerates argument lists; the harness runs the   *)
(* real binary (diagnostic: the program is not part of a listed property). *)
(***************************************************************************)
EXTENDS Api
CONSTANT MaxArgs
VARIABLE args

T(s) == s
ArgPool == {<<49>>, <<43>>, <<50>>, <<120, 32, 61, 32, 51, 59>>, <<120>>, <<34, 97, 32, 98, 34>>, <<40, 49, 44>>, <<50, 41>>,
            <<49, 47, 48>>, <<116, 114, 117, 101>>, <<>>, <<32>>, <<59>>, <<45>>, <<40, 41>>, <<108, 101, 110>>}
\*           1      +      2      "x = 3;"                  x       "a b" (quoted)          (1,           2)
\*           1/0              true                   ""    " "    ;      -      ()         len
Init == args = <<>>
Next == Len(args) < MaxArgs /\ \E a \in ArgPool : args' = Append(args, a)

Src == Join(args, <<32>>)
Outcome ==
  LET b == Build(Src)
      out == EvalCall(b, "value", "fresh", St(NewHashMap, <<>>)) IN
  IF ~out.det \/ \E p \in out.pats : p.p = "any" THEN [k |-> "any", text |-> <<>>]
  ELSE IF \A p \in out.pats : p.p = "val"
       THEN [k |-> "ok", text |-> DisplayValue((CHOOSE p \in out.pats : TRUE).v) \o <<10>>]
  ELSE IF \A p \in out.pats : p.p \in {"err", "anyerr"} THEN [k |-> "fail", text |-> <<>>]
  ELSE [k |-> "any", text |-> <<>>]
SpecTheorems == TRUE
Emit == PrintT(ToJson([kind |-> "cli", check |-> "cli", args |-> args, src |-> Src, k |-> Outcome.k, text |-> Outcome.text]))
=============================================================================
