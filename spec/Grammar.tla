------------------------------ MODULE Grammar ------------------------------
(***************************************************************************)
(* The documented expression grammar of evalexpr (README "Operators"),     *)
(* written declaratively as a precedence-climbing recogniser over token    *)
(* sequences, NOT as a transcription of the crate's root-stack machine     *)
(* (src/tree/mod.rs tokens_to_operator_tree / insert_back_prioritized):    *)
(*                                                                         *)
(*   program  ::= tuple { ";" tuple }          chain, value of the last    *)
(*   tuple    ::= [expr] { "," [expr] }        flat tuple, absent = empty  *)
(*   expr     ::= unary { binop expr }         by precedence, see Prec     *)
(*   unary    ::= ("-" | "!") expr(110) | primary                          *)
(*   primary  ::= literal | id | id primary | "(" program ")"              *)
(*                                                                         *)
(* Classify(ts) sorts every token sequence into                            *)
(*   WF     derivable, and the documentation determines the tree,          *)
(*   UNSPEC derivable, but two documented rules conflict (x ^ -y ^ z; an   *)
(*          assignment whose left operand is not a bare identifier;        *)
(*          chains mixing = and op=),                                      *)
(*   IF     not derivable: unbalanced parentheses, an operator without an  *)
(*          operand, or juxtaposed operands outside function application.  *)
(* Render is the inverse direction: an AST to a token sequence with        *)
(* exactly the parentheses the table requires plus chosen redundant ones.  *)
(***************************************************************************)
EXTENDS Text, TLC

(***************************************************************************)
(* Tokens: k in {"op","id","lit","eof"}, o operator text, n identifier,    *)
(* v literal value, x source text (code points).                           *)
(***************************************************************************)
OpText ==
  ("+" :> <<43>>) @@ ("-" :> <<45>>) @@ ("*" :> <<42>>) @@ ("/" :> <<47>>) @@ ("%" :> <<37>>) @@ ("^" :> <<94>>) @@
  ("==" :> <<61, 61>>) @@ ("!=" :> <<33, 61>>) @@ (">" :> <<62>>) @@ ("<" :> <<60>>) @@ (">=" :> <<62, 61>>) @@
  ("<=" :> <<60, 61>>) @@ ("&&" :> <<38, 38>>) @@ ("||" :> <<124, 124>>) @@ ("!" :> <<33>>) @@
  ("(" :> <<40>>) @@ (")" :> <<41>>) @@ ("," :> <<44>>) @@ (";" :> <<59>>) @@
  ("=" :> <<61>>) @@ ("+=" :> <<43, 61>>) @@ ("-=" :> <<45, 61>>) @@ ("*=" :> <<42, 61>>) @@ ("/=" :> <<47, 61>>) @@
  ("%=" :> <<37, 61>>) @@ ("^=" :> <<94, 61>>) @@ ("&&=" :> <<38, 38, 61>>) @@ ("||=" :> <<124, 124, 61>>)
AllOps == DOMAIN OpText

TOp(o) == [k |-> "op", o |-> o, n |-> <<>>, v |-> VEmpty, x |-> OpText[o]]
TId(n) == [k |-> "id", o |-> "", n |-> n, v |-> VEmpty, x |-> n]
TLit(v, x) == [k |-> "lit", o |-> "", n |-> <<>>, v |-> v, x |-> x]
TEof == [k |-> "eof", o |-> "", n |-> <<>>, v |-> VEmpty, x |-> <<>>]

AssignOps == {"=", "+=", "-=", "*=", "/=", "%=", "^=", "&&=", "||="}
PlainBinOps == {"^", "*", "/", "%", "+", "-", "<", ">", "<=", ">=", "==", "!=", "&&", "||"}
BinOps == PlainBinOps \cup AssignOps
PrefixOps == {"-", "!"}

\* the documented precedence table
Prec(o) == CASE o = "^" -> 120
             [] o \in {"*", "/", "%"} -> 100
             [] o \in {"+", "-"} -> 95
             [] o \in {"<", ">", "<=", ">=", "==", "!="} -> 80
             [] o = "&&" -> 75
             [] o = "||" -> 70
             [] o \in AssignOps -> 50
PrefixPrec == 110
TuplePrec == 40
ChainPrec == 0
RightAssoc(o) == o = "="

BinNode(o) == CASE o = "+" -> "Add" [] o = "-" -> "Sub" [] o = "*" -> "Mul" [] o = "/" -> "Div" [] o = "%" -> "Mod"
                [] o = "^" -> "Exp" [] o = "==" -> "Eq" [] o = "!=" -> "Neq" [] o = ">" -> "Gt" [] o = "<" -> "Lt"
                [] o = ">=" -> "Geq" [] o = "<=" -> "Leq" [] o = "&&" -> "And" [] o = "||" -> "Or"
                [] o = "=" -> "Assign" [] o = "+=" -> "AddAssign" [] o = "-=" -> "SubAssign" [] o = "*=" -> "MulAssign"
                [] o = "/=" -> "DivAssign" [] o = "%=" -> "ModAssign" [] o = "^=" -> "ExpAssign"
                [] o = "&&=" -> "AndAssign" [] o = "||=" -> "OrAssign"
PrefixNode(o) == IF o = "-" THEN "Neg" ELSE "Not"
AssignNodes == {"Assign", "AddAssign", "SubAssign", "MulAssign", "DivAssign", "ModAssign", "ExpAssign", "AndAssign", "OrAssign"}
PlainBinNodes == {"Add", "Sub", "Mul", "Div", "Mod", "Exp", "Eq", "Neq", "Gt", "Lt", "Geq", "Leq", "And", "Or"}
BinNodes == PlainBinNodes \cup AssignNodes
NodeOp == [nd \in BinNodes |-> CHOOSE o \in BinOps : BinNode(o) = nd]      \* inverse of BinNode

(***************************************************************************)
(* Trees: o node kind, n identifier (Read/Write/Call), v value (Const),    *)
(* k children.  Kinds: the operator names of the crate, Const, Read,       *)
(* Write, Call, Tuple, Chain, Empty (an absent element / `()`), and Par    *)
(* (a parenthesis pair, removed by Norm).                                  *)
(***************************************************************************)
N(o, n, v, k) == [o |-> o, n |-> n, v |-> v, k |-> k]
NLeaf(o, n) == N(o, n, VEmpty, <<>>)
NConst(v, x) == N("Const", x, v, <<>>)          \* a constant keeps its spelling in n
NOp(o, k) == N(o, <<>>, VEmpty, k)
NEmpty == NOp("Empty", <<>>)

PFail == [ok |-> FALSE, node |-> NEmpty, pos |-> 0]
POk(n, p) == [ok |-> TRUE, node |-> n, pos |-> p]
At(ts, p) == IF p <= Len(ts) THEN ts[p] ELSE TEof
IsOp(t, o) == t.k = "op" /\ t.o = o
LeftSided(t) == t.k \in {"lit", "id"} \/ IsOp(t, "(")                    \* a token that can start an operand
EndsElement(t) == t.k = "eof" \/ (t.k = "op" /\ t.o \in {",", ";", ")"})

RECURSIVE Expr(_, _, _), Primary(_, _), Unary(_, _), Climb(_, _, _, _), TupleLevel(_, _, _), ChainLevel(_, _, _)

Primary(ts, p) ==
  LET t == At(ts, p) IN
  CASE t.k = "lit" -> POk(NConst(t.v, t.x), p + 1)
    [] t.k = "id" ->
         LET nx == At(ts, p + 1) IN
         IF nx.k = "op" /\ nx.o \in AssignOps THEN POk(NLeaf("Write", t.n), p + 1)     \* assignment target
         ELSE IF LeftSided(nx)                                                       \* function application
              THEN LET a == Primary(ts, p + 1) IN
                   IF a.ok THEN POk(N("Call", t.n, VEmpty, <<a.node>>), a.pos) ELSE PFail
         ELSE POk(NLeaf("Read", t.n), p + 1)
    [] IsOp(t, "(") ->
         LET r == ChainLevel(ts, p + 1, <<>>) IN
         IF r.ok /\ IsOp(At(ts, r.pos), ")") THEN POk(NOp("Par", <<r.node>>), r.pos + 1) ELSE PFail
    [] OTHER -> PFail

Unary(ts, p) ==
  LET t == At(ts, p) IN
  IF t.k = "op" /\ t.o \in PrefixOps
  THEN LET r == Expr(ts, p + 1, PrefixPrec) IN
       IF r.ok THEN POk(NOp(PrefixNode(t.o), <<r.node>>), r.pos) ELSE PFail
  ELSE Primary(ts, p)

Climb(ts, left, p, minPrec) ==
  LET t == At(ts, p) IN
  IF ~(t.k = "op" /\ t.o \in BinOps) THEN POk(left, p)
  ELSE IF Prec(t.o) < minPrec THEN POk(left, p)
  ELSE LET r == Expr(ts, p + 1, IF RightAssoc(t.o) THEN Prec(t.o) ELSE Prec(t.o) + 1) IN
       IF r.ok THEN Climb(ts, NOp(BinNode(t.o), <<left, r.node>>), r.pos, minPrec) ELSE PFail

Expr(ts, p, minPrec) ==
  LET l == Unary(ts, p) IN IF l.ok THEN Climb(ts, l.node, l.pos, minPrec) ELSE PFail

ElemOrEmpty(ts, p) == IF EndsElement(At(ts, p)) THEN POk(NEmpty, p) ELSE Expr(ts, p, 50)

TupleLevel(ts, p, acc) ==
  LET e == ElemOrEmpty(ts, p) IN
  IF ~e.ok THEN PFail
  ELSE IF IsOp(At(ts, e.pos), ",") THEN TupleLevel(ts, e.pos + 1, Append(acc, e.node))
  ELSE IF acc = <<>> THEN e ELSE POk(NOp("Tuple", Append(acc, e.node)), e.pos)

ChainLevel(ts, p, acc) ==
  LET e == TupleLevel(ts, p, <<>>) IN
  IF ~e.ok THEN PFail
  ELSE IF IsOp(At(ts, e.pos), ";") THEN ChainLevel(ts, e.pos + 1, Append(acc, e.node))
  ELSE IF acc = <<>> THEN e ELSE POk(NOp("Chain", Append(acc, e.node)), e.pos)

Loose(ts) == LET r == ChainLevel(ts, 1, <<>>) IN IF r.ok /\ r.pos = Len(ts) + 1 THEN r ELSE PFail

(***************************************************************************)
(* Shapes on which two documented rules conflict.                          *)
(***************************************************************************)
RECURSIVE StripPrefix(_)
StripPrefix(n) == IF n.o \in {"Neg", "Not"} THEN StripPrefix(n.k[1]) ELSE n
RECURSIVE Unspec(_)
Unspec(n) ==
  \/ \E i \in 1..Len(n.k) : Unspec(n.k[i])
  \/ /\ n.o \in AssignNodes
     /\ \/ n.k[1].o # "Write"                                          \* target is not a bare identifier
        \/ n.k[2].o \in AssignNodes /\ ~(n.o = "Assign" /\ n.k[2].o = "Assign")   \* = mixed with op=, or op= chained
  \/ /\ n.o = "Exp"
     /\ n.k[2].o \in {"Neg", "Not"}
     /\ StripPrefix(n.k[2]).o = "Exp"                                  \* x ^ -y ^ z

RECURSIVE Norm(_)
Norm(n) == IF n.o = "Par" THEN Norm(n.k[1]) ELSE [n EXCEPT !.k = [i \in 1..Len(n.k) |-> Norm(n.k[i])]]

RECURSIVE DepthOK(_, _)
DepthOK(ts, st) ==      \* st = <<position, depth>>: never negative
  IF st[1] > Len(ts) THEN st[2] = 0
  ELSE IF IsOp(ts[st[1]], "(") THEN DepthOK(ts, <<st[1] + 1, st[2] + 1>>)
  ELSE IF IsOp(ts[st[1]], ")") THEN st[2] > 0 /\ DepthOK(ts, <<st[1] + 1, st[2] - 1>>)
  ELSE DepthOK(ts, <<st[1] + 1, st[2]>>)
Balanced(ts) == DepthOK(ts, <<1, 0>>)

Classify(ts) ==
  LET r == Loose(ts) IN
  IF ~r.ok THEN [class |-> "IF", tree |-> NEmpty]
  ELSE IF Unspec(r.node) THEN [class |-> "UNSPEC", tree |-> NEmpty]
  ELSE [class |-> "WF", tree |-> Norm(r.node)]

(***************************************************************************)
(* Identifier occurrences in source order (pre-order), with their class.   *)
(***************************************************************************)
RECURSIVE Occurrences(_)
RECURSIVE OccKids(_, _)
OccKids(k, i) == IF i > Len(k) THEN <<>> ELSE Occurrences(k[i]) \o OccKids(k, i + 1)
Occurrences(n) ==
  (IF n.o \in {"Read", "Write", "Call"} THEN <<[n |-> n.n, c |-> n.o]>> ELSE <<>>) \o OccKids(n.k, 1)

\* compact JSON projection of a tree
RECURSIVE JTree(_)
JTree(n) == IF n.o = "Const" THEN [o |-> n.o, n |-> n.n, v |-> JVal(n.v), k |-> <<>>]
            ELSE [o |-> n.o, n |-> n.n, k |-> [i \in 1..Len(n.k) |-> JTree(n.k[i])]]

RECURSIVE NodeCount(_)
RECURSIVE CountKids(_, _)
CountKids(k, i) == IF i > Len(k) THEN 0 ELSE NodeCount(k[i]) + CountKids(k, i + 1)
NodeCount(n) == 1 + CountKids(n.k, 1)

(***************************************************************************)
(* Rendering an AST (normal form, no Par nodes) back to tokens.            *)
(*   allp   parenthesise every operand subtree (redundant parentheses)     *)
(*   callp  always parenthesise a call argument (`f(x)` instead of `f x`)  *)
(***************************************************************************)
NodePrec(n) == CASE n.o \in BinNodes -> Prec(NodeOp[n.o])
                 [] n.o \in {"Neg", "Not"} -> PrefixPrec
                 [] n.o = "Tuple" -> TuplePrec
                 [] n.o = "Chain" -> ChainPrec
                 [] OTHER -> 200

LPar == TOp("(")
RPar == TOp(")")
Wrap(ts) == <<LPar>> \o ts \o <<RPar>>
LeafTok(n) == IF n.o = "Const" THEN TLit(n.v, n.n) ELSE TId(n.n)

RECURSIVE RP(_, _, _), RInline(_, _), RBare(_, _), RElems(_, _, _, _)

\* n as an operand in a position that requires precedence >= minp
RP(n, minp, opt) ==
  IF n.o = "Empty" THEN <<LPar, RPar>>
  ELSE IF NodePrec(n) < minp THEN Wrap(RInline(n, opt))               \* parentheses required by the table
  ELSE IF opt.allp /\ n.o # "Write" THEN Wrap(RInline(n, opt))        \* redundant parentheses
  ELSE RBare(n, opt)

RBare(n, opt) ==
  CASE n.o \in {"Const", "Read", "Write"} -> <<LeafTok(n)>>
    [] n.o = "Call" ->
         LET a == n.k[1] IN
         <<TId(n.n)>> \o (IF ~opt.callp /\ ~opt.allp /\ a.o \in {"Const", "Read", "Call"}
                          THEN RBare(a, opt) ELSE Wrap(RInline(a, opt)))
    [] n.o \in {"Neg", "Not"} -> <<TOp(IF n.o = "Neg" THEN "-" ELSE "!")>> \o RP(n.k[1], PrefixPrec, opt)
    [] n.o \in BinNodes ->
         LET o == NodeOp[n.o]  P == Prec(NodeOp[n.o]) IN
         RP(n.k[1], IF RightAssoc(o) THEN P + 1 ELSE P, opt) \o <<TOp(o)>>
           \* `=` absorbs a plain assignment on its right; an op-assignment there is parenthesised, because the
           \* documentation does not say how `x = y += 1` groups
           \o RP(n.k[2], IF RightAssoc(o) /\ n.k[2].o \notin (AssignNodes \ {"Assign"}) THEN P ELSE P + 1, opt)

\* elements i.. of a sequence node, separated by its separator token
RElems(n, i, opt, sep) ==
  LET e == n.k[i]
      this == IF e.o = "Empty" THEN <<>>
              ELSE IF n.o = "Chain" /\ e.o = "Tuple" THEN RInline(e, opt)
              ELSE RP(e, 50, opt)
  IN IF i = Len(n.k) THEN this ELSE this \o <<TOp(sep)>> \o RElems(n, i + 1, opt, sep)

\* n at top level or directly inside a parenthesis pair: sequences are written inline
RInline(n, opt) ==
  CASE n.o = "Chain" -> RElems(n, 1, opt, ";")
    [] n.o = "Tuple" -> RElems(n, 1, opt, ",")
    [] n.o = "Empty" -> <<>>
    [] OTHER -> RBare(n, opt)

Minimal == [allp |-> FALSE, callp |-> FALSE]
CallParens == [allp |-> FALSE, callp |-> TRUE]
AllParens == [allp |-> TRUE, callp |-> TRUE]
Render(ast, opt) == RInline(ast, opt)
SourceOf(ts) == Join([i \in 1..Len(ts) |-> ts[i].x], <<32>>)
TokTexts(ts) == [i \in 1..Len(ts) |-> ts[i].x]

\* ASTs in the image of the WF parser: the shapes a generator may build
RECURSIVE WFAst(_)
WFAst(n) ==
  /\ \A i \in 1..Len(n.k) : WFAst(n.k[i])
  /\ CASE n.o \in {"Const", "Read", "Empty"} -> Len(n.k) = 0
       [] n.o = "Write" -> FALSE                                   \* only as an assignment target, see below
       [] n.o = "Call" -> Len(n.k) = 1
       [] n.o \in {"Neg", "Not"} -> Len(n.k) = 1
       [] n.o \in PlainBinNodes -> Len(n.k) = 2
       [] n.o \in AssignNodes -> FALSE
       [] n.o \in {"Tuple", "Chain"} -> Len(n.k) >= 2
       [] OTHER -> FALSE
  \/ /\ n.o \in AssignNodes /\ Len(n.k) = 2 /\ n.k[1].o = "Write" /\ Len(n.k[1].k) = 0 /\ WFAst(n.k[2])
=============================================================================
