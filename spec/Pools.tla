------------------------------- MODULE Pools -------------------------------
(***************************************************************************)
(* Value pools of the single-operation models (MC_Ops, MC_Builtins):       *)
(* boundary values of every value type.  PoolName selects the size         *)
(* ("quick" or "full").  MC_PoolDump prints the pools so that the driver   *)
(* can ask primgen for the environment primitives on exactly these values. *)
(***************************************************************************)
EXTENDS Values
CONSTANT PoolName

Pow2I(k) == Mk(0, [i \in 1..5 |-> IF i = (k \div 15) + 1 THEN Pow2[(k % 15) + 1] ELSE 0])      \* 2^k, k < 75
P(x, d) == AddRaw(x, FromInt(d))

IntsQuick == {MinInt, P(MinInt, 1), MaxInt, P(MaxInt, -1), Zero, FromInt(1), FromInt(-1), FromInt(2), FromInt(-2),
              FromInt(3), FromInt(7), FromInt(-7), FromInt(63), FromInt(64), Pow2I(31), Pow2I(32),
              Pow2I(53), P(Pow2I(53), 1), NegRaw(P(Pow2I(53), 1)), Pow2I(62)}
IntsFull == IntsQuick \cup {P(MinInt, 2), P(MaxInt, -2), FromInt(-3), FromInt(10), FromInt(-10), FromInt(100), FromInt(65),
                            NegRaw(Pow2I(31)), P(Pow2I(31), -1), NegRaw(Pow2I(32)), P(Pow2I(32), 1),
                            P(Pow2I(53), -1), NegRaw(Pow2I(53)), P(Pow2I(53), 2), NegRaw(Pow2I(62)), P(Pow2I(62), 1),
                            FromDigits(<<3, 0, 3, 7, 0, 0, 0, 4, 9, 9>>, 10).v, FromInt(46341), FromInt(-46341)}

\* doubles as <<w3, w2, w1, w0>>
FPosZero == <<0, 0, 0, 0>>            FNegZero == <<32768, 0, 0, 0>>
FMinSub == <<0, 0, 0, 1>>             FNegMinSub == <<32768, 0, 0, 1>>
FMinNorm == <<16, 0, 0, 0>>
FOneP == <<16368, 0, 0, 0>>           FMinusOne == <<49136, 0, 0, 0>>
FOneHalf == <<16376, 0, 0, 0>>        FMinusOneHalf == <<49144, 0, 0, 0>>
FTenth == <<16313, 39321, 39321, 39322>>
FHalf == <<16352, 0, 0, 0>>           FTwo == <<16384, 0, 0, 0>>            FThree == <<16392, 0, 0, 0>>
FTwoHalf == <<16388, 0, 0, 0>>        FMinusTwoHalf == <<49156, 0, 0, 0>>
F2p53 == <<17216, 0, 0, 0>>           F2p53p2 == <<17216, 0, 0, 1>>
F2p63 == <<17376, 0, 0, 0>>           FMinus2p63 == <<50144, 0, 0, 0>>      FBelow2p63 == <<17375, 65535, 65535, 65535>>
F1e19 == <<17377, 22756, 24721, 15616>>  FMinus1e19 == <<50145, 22756, 24721, 15616>>
FMax == <<32751, 65535, 65535, 65535>>   FMinusMax == <<65519, 65535, 65535, 65535>>
FInf == <<32752, 0, 0, 0>>            FMinusInf == <<65520, 0, 0, 0>>
FNaN == <<32760, 0, 0, 0>>            FMinusNaN == <<65528, 0, 0, 0>>
FloatsQuick == {FPosZero, FNegZero, FMinSub, FOneP, FMinusOne, FOneHalf, FHalf, FTenth, FTwoHalf, FMinusTwoHalf, F2p53, F2p63,
                FMinus2p63, F1e19, FMax, FInf, FMinusInf, FNaN}
FloatsFull == FloatsQuick \cup {FNegMinSub, FMinNorm, FMinusOneHalf, FTwo, FThree, F2p53p2, FBelow2p63, FMinus1e19,
                                FMinusMax, FMinusNaN}

Sa == <<97>>   Sb == <<98>>   Sab == <<97, 98>>   SAuml == <<228>>   SZ == <<90>>   SEmoji == <<128512>>
SMixed == <<32, 228, 98, 9>>          \* " äb\t": whitespace around a multi-byte character
SWide == <<12288, 97, 160>>            \* U+3000 a U+00A0: multi-byte whitespace at BOTH ends (character counts are not byte offsets)
StringsQuick == {<<>>, Sa, Sab, SAuml, SMixed, SWide}
StringsFull == StringsQuick \cup {Sb, SZ, SEmoji, <<97, 228, 128512, 98>>, <<34, 92>>, <<223>>}

Ints == IF PoolName = "quick" THEN IntsQuick ELSE IntsFull
Floats == IF PoolName = "quick" THEN FloatsQuick ELSE FloatsFull
Strings == IF PoolName = "quick" THEN StringsQuick ELSE StringsFull
TuplesQuick == {VTuple(<<>>), VTuple(<<VNat(1)>>), VTuple(<<VNat(1), VNat(2)>>), VTuple(<<VTuple(<<VNat(1)>>), VStr(Sa)>>)}
TuplesFull == TuplesQuick \cup {VTuple(<<VFloat(FOneP), VStr(Sa), VBool(TRUE), VEmpty>>), VTuple(<<VEmpty, VEmpty>>),
                                VTuple(<<VFloat(FNaN), VInt(MinInt)>>)}
Tuples == IF PoolName = "quick" THEN TuplesQuick ELSE TuplesFull

\* smaller pools for argument pairs and triples of the builtin model
PairInts == {MinInt, MaxInt, Zero, FromInt(1), FromInt(-1), FromInt(2), FromInt(3), FromInt(63), FromInt(64), P(Pow2I(53), 1)}
PairFloats == {FNegZero, FOneP, FMinusTwoHalf, FHalf, FTenth, F2p53, F1e19, FInf, FMinusInf, FNaN}
PairPool == {VInt(i) : i \in (IF PoolName = "quick" THEN PairInts ELSE Ints)}
            \cup {VFloat(f) : f \in (IF PoolName = "quick" THEN PairFloats ELSE Floats)}
            \cup {VStr(s) : s \in (IF PoolName = "quick" THEN {<<>>, Sab, SMixed} ELSE Strings)}
            \cup {VBool(TRUE), VEmpty, VTuple(<<VNat(1), VNat(2)>>), VTuple(<<VTuple(<<VNat(1)>>), VStr(Sa)>>),
                  \* a scalar that is found, followed by an element that is not allowed (contains_any must still reject it)
                  VTuple(<<VNat(2), VTuple(<<VNat(1)>>)>>), VTuple(<<VNat(7), VNat(2)>>)}
            \cup (IF PoolName = "quick" THEN {} ELSE {VBool(FALSE), VTuple(<<>>), VTuple(<<VFloat(FOneP), VStr(Sa), VBool(TRUE), VEmpty>>)})
TriplePool == {VInt(Zero), VInt(FromInt(1)), VInt(FromInt(3)), VInt(FromInt(-1)), VFloat(FOneHalf), VStr(SMixed),
               VBool(TRUE), VBool(FALSE)}
              \cup (IF PoolName = "quick" THEN {} ELSE {VInt(MaxInt), VInt(FromInt(2)), VFloat(FNaN), VStr(Sab), VEmpty,
                                                      VTuple(<<VNat(1), VNat(2)>>)})

Pool == {VInt(i) : i \in Ints} \cup {VFloat(f) : f \in Floats} \cup {VStr(s) : s \in Strings}
        \cup {VBool(TRUE), VBool(FALSE), VEmpty} \cup Tuples
=============================================================================
