------------------------------- MODULE MC_Sep -------------------------------
(***************************************************************************)
(* C07: whitespace and comments never change meaning.                      *)
(*                                                                         *)
(* State: a token sequence together with the separator text written        *)
(* before each token and after the last one.  TLC enumerates every token   *)
(* sequence up to MaxLen over an alphabet that contains the characters of  *)
(* compound operators, and every assignment of separators to the gaps.     *)
(* An assignment is ADMISSIBLE iff every gap in which the neighbours would *)
(* fuse is non-empty; fusion is defined syntactically (NeedsGap), not      *)
(* through the lexer.  Theorem checked on the specification: for every     *)
(* admissible assignment the lexer returns exactly the token sequence.     *)
(* It says that nothing else fuses and that every separator separates.     *)
(* Conformance: the rendering with single spaces and the rendering with    *)
(* the chosen separators must precompile to equal trees or fail with the   *)
(* same error.                                                             *)
(***************************************************************************)
EXTENDS Api
CONSTANTS MaxLen, SepSet
VARIABLES toks, gaps          \* gaps[i] precedes toks[i]; gaps[Len(toks) + 1] (kept in `tail`) follows the last token
VARIABLE tail

W1 == TLit(VNat(1), <<49>>)
W3 == TLit(VNat(3), <<51>>)
WX == TId(<<120>>)
W2e == TId(<<50, 101>>)                          \* "2e": an identifier that is the head of a three-piece float
\* a string literal whose body ENDS IN AN ESCAPED BACKSLASH ("a\\"): a scanner that decides "is this quote escaped?" by looking at
\* one preceding character instead of the parity of the backslash run takes the closing quote for an escaped one, and every
\* comment after it is then inside / outside a string for it
WS == TLit(VStr(<<97, 92>>), <<34, 97, 92, 92, 34>>)
\* a decimal word just beyond the i64 range: what it denotes is not claimed (C06), but C07 is relational - its meaning must
\* not depend on the separators around it either (e.g. a sign glued to it must stay a prefix operator)
WBig == TLit(VFloat(<<17376, 0, 0, 0>>), <<57, 50, 50, 51, 51, 55, 50, 48, 51, 54, 56, 53, 52, 55, 55, 53, 56, 48, 56>>)
AlphabetT == {W1, W3, WX, W2e, WS, WBig} \cup {TOp(o) : o \in {"+", "-", "=", "<", "!", "&&", "/", "*", "=="}}

\* separator texts
SP == <<32>>   TAB == <<9>>   NLs == <<10>>   NBSP == <<160>>   EMSP == <<8195>>   IDSP == <<12288>>
BLK == <<47, 42, 42, 47>>                        \* /**/
BLKX == <<47, 42, 32, 120, 32, 42, 47>>          \* /* x */
BLK3 == <<47, 42, 42, 42, 47>>                   \* /***/   (a body that ends in a star)
BLKS == <<47, 42, 47, 32, 42, 47>>               \* /*/ */  (a body that starts with a slash)
BLKU == <<47, 42, 228, 8364, 42, 47>>            \* /*ae-umlaut euro-sign*/  (multi-byte characters in the body)
LINEU == <<47, 47, 228, 10>>                     \* //ae-umlaut NL
VT == <<11>>
LINE == <<47, 47, 32, 121, 10>>                  \* // y NL
LINECR == <<47, 47, 13, 43, 49, 10>>             \* // CR +1 NL  (only the line feed ends a line comment)
\* the single space is the baseline rendering (Plain), so the small set spends its four slots on the other kinds
Seps == CASE SepSet = "small" -> {<<>>, IDSP, BLK3, LINE}
          [] SepSet = "six" -> {<<>>, NLs, NBSP, BLKU, BLKS, LINECR}
          [] SepSet = "medium" -> {<<>>, SP, TAB, NLs, VT, NBSP, BLK, BLKX, BLKS, LINE, LINECR, BLKU, LINEU}
          [] OTHER -> {<<>>, SP, TAB, NLs, VT, NBSP, EMSP, IDSP, BLK, BLKX, BLK3, BLKS, BLKU, LINE, LINECR, LINEU, SP \o BLK, BLK \o SP}

Init == toks = <<>> /\ gaps = <<>> /\ tail = <<>>
Next == /\ Len(toks) < MaxLen
        /\ \E t \in AlphabetT, g \in Seps, tl \in Seps :
             toks' = Append(toks, t) /\ gaps' = Append(gaps, g) /\ tail' = tl

(***************************************************************************)
(* Syntactic fusion rule.                                                  *)
(***************************************************************************)
IsWord(t) == t.k = "id" \/ (t.k = "lit" /\ t.v.t # "String")
EqJoins == {"+", "-", "*", "/", "%", "^", "=", "!", "<", ">", "&&", "||"}     \* operators that absorb a following '='
\* would token a, directly followed by text starting with character c, change meaning?
FusesWithChar(a, c) ==
  \/ IsWord(a) /\ IsWordChar(c)
  \/ a.k = "op" /\ a.o \in EqJoins /\ c = EQ
  \/ a.k = "op" /\ a.o = "/" /\ c \in {SLASH, STAR}                            \* would open a comment
\* the three-piece float: <word ending a float head> (+|-) <digits> with both gaps empty
ThreePiece(ts, gs, i) ==
  /\ i + 2 <= Len(ts) /\ ts[i].k = "id" /\ ts[i + 1].k = "op" /\ ts[i + 1].o \in {"+", "-"} /\ IsWord(ts[i + 2])
  /\ gs[i + 1] = <<>> /\ gs[i + 2] = <<>>
  /\ IsFloatText(ts[i].x \o ts[i + 1].x \o ts[i + 2].x)
Admissible(ts, gs) ==
  /\ \A i \in 1..(Len(ts) - 1) :
       LET follow == gs[i + 1] \o ts[i + 1].x IN ~FusesWithChar(ts[i], follow[1])
  /\ (Len(ts) >= 1 /\ tail # <<>> => ~FusesWithChar(ts[Len(ts)], tail[1]))
  /\ \A i \in 1..Len(ts) : ~ThreePiece(ts, gs, i)

RECURSIVE RenderWith(_, _, _)
RenderWith(ts, gs, i) == IF i > Len(ts) THEN <<>> ELSE gs[i] \o ts[i].x \o RenderWith(ts, gs, i + 1)
Text == RenderWith(toks, gaps, 1) \o tail
Plain == SourceOf(toks)                                  \* single spaces

Blt == Build(Plain)
Case == [kind |-> "parse", check |-> "separators", src |-> Plain, src2 |-> Text, bal |-> TRUE,
         class |-> IF Blt.class = "WF" /\ ~Blt.open THEN "WF" ELSE IF Blt.class \in {"IF", "LEXERR"} THEN Blt.class ELSE "UNSPEC",
         tree |-> JTree(Blt.tree), occ |-> IF Blt.class = "WF" THEN Occurrences(Blt.tree) ELSE <<>>, fk |-> <<>>]
Emit == (Len(toks) >= 1 /\ Admissible(toks, gaps)) => PrintT(ToJson(Case))

SpecTheorems ==
  Len(toks) >= 1 =>
    /\ Lex(Plain).ok /\ Lex(Plain).toks = toks                          \* single spaces always separate
    /\ (Admissible(toks, gaps) => Lex(Text).ok /\ Lex(Text).toks = toks)   \* so does every admissible assignment
    \* and the rule is tight: an inadmissible assignment does change the token sequence
    /\ (~Admissible(toks, gaps) => ~(Lex(Text).ok /\ Lex(Text).toks = toks))
=============================================================================
