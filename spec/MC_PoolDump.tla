---------------------------- MODULE MC_PoolDump ----------------------------
(* Prints the value pools as one JSON line (the request for primgen). *)
EXTENDS Pools, TLC, Json
VARIABLE x
Init == x = 0
Next == UNCHANGED x
ASSUME PrintT(ToJson([floats |-> Floats, ints |-> Ints, strings |-> Strings, words |-> {}]))
=============================================================================
