---------------------------- MODULE MC_Tokenizer ----------------------------
(***************************************************************************)
(* Implementation-shaped pipeline: source TEXT -> Tokenizer.tla (the       *)
(* crate's two-pass partial-token machine, transcribed) -> TreeBuilder.tla *)
(* (the crate's root-stack builder, transcribed).                          *)
(*   - TLC checks on every string over a small alphabet that the machine   *)
(*     refines the normative lexer (TokRefines, TokDeviationIsKF1);        *)
(*   - every string is emitted with the pipeline's exact outcome (tree or  *)
(*     error variant) and replayed against build_operator_tree as a        *)
(*     diagnostic (never part of a verdict).                               *)
(***************************************************************************)
EXTENDS TreeBuilder, Tokenizer, Api
CONSTANTS MaxLen, AlphaName
VARIABLE s

Alphabet ==
  CASE AlphaName = "num" -> {48, 49, 101, 69, 120, 46, 43, 45, 97, 102}              \* 0 1 e E x . + - a f
    [] AlphaName = "punct" -> {97, 49, 61, 38, 124, 43, 33, 60, 32, 40, 41}           \* a 1 = & | + ! < space ( )
    [] AlphaName = "text" -> {97, QUOTE, BSL, 47, 42, NL, 32, 43, 49, 228}            \* a " \ / * newline space + 1 a-umlaut
SpecialSources == IF AlphaName # "num" THEN {} ELSE
  {<<105, 110, 102>>, <<78, 97, 78>>, <<105, 110, 102, 105, 110, 105, 116, 121>>, <<105, 110, 102, 43, 49>>,
   <<49, 101, 43, 105, 110, 102>>, <<110, 97, 110, 101, 45, 49>>,
   <<48, 120, 56, 48, 48, 48, 48, 48, 48, 48, 48, 48, 48, 48, 48, 48, 48, 48>>,
   <<57, 50, 50, 51, 51, 55, 50, 48, 51, 54, 56, 53, 52, 55, 55, 53, 56, 48, 56>>, <<48, 120, 49, 101, 45, 51>>,
   <<48, 120, 69, 43, 49>>, <<49, 101, 43, 40>>, <<49, 101, 45, 32, 51>>, <<49, 101, 43, 34, 53, 34>>}
Init == s = <<>>
Next == Len(s) < MaxLen /\ \E c \in Alphabet : s' = Append(s, c)

ImplErr(e) == IF e = "UnterminatedComment" THEN "CustomMessage" ELSE e
Pipeline(src) ==
  LET tz == Tokenize(src) IN
  IF ~tz.ok THEN [ok |-> FALSE, tree |-> NEmpty, err |-> ImplErr(tz.err)] ELSE ImplBuild(tz.toks)
\* composition: the transcribed pipeline (text -> partial tokens -> tokens -> root stack -> tree) refines the normative
\* precompilation Build (Lexer + Grammar) wherever the documentation fixes the meaning of the text
PipelineRefines(src) ==
  LET b == Build(src)
      p == Pipeline(src) IN
  /\ (b.class = "LEXERR" => ~p.ok)
  /\ (b.class = "WF" /\ ~b.open => p.ok /\ StripText(NormRoot(p.tree)) = StripText(b.tree))
  /\ (b.class = "IF" /\ ~b.open => ~p.ok \/ Deficient(p.tree))
Case(src) ==
  LET b == Pipeline(src) IN
  [kind |-> "impl", check |-> "impl_model", src |-> src, toks |-> <<>>, ok |-> b.ok,
   tree |-> IF b.ok THEN JTree(NormRoot(b.tree)) ELSE JTree(NEmpty), err |-> b.err]
SpecTheorems == /\ TokRefines(s) /\ TokDeviationIsKF1(s) /\ PipelineRefines(s)
                /\ (s = <<>> => \A w \in SpecialSources : TokRefines(w) /\ TokDeviationIsKF1(w) /\ PipelineRefines(w))

Emit == /\ PrintT(ToJson(Case(s)))
        /\ (s = <<>> => \A w \in SpecialSources : PrintT(ToJson(Case(w))))
=============================================================================
