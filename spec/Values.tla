------------------------------- MODULE Values -------------------------------
(***************************************************************************)
(* The six value variants of evalexpr (src/value/mod.rs) as uniform        *)
(* records, so that TLC can compare any two of them:                       *)
(*   t  variant name        i  Int64 tuple (<<>> unless Int)               *)
(*   f  Float64 words (<<>> unless Float)    s  code points (<<>> unless   *)
(*   String)   b  BOOLEAN (FALSE unless Boolean)   k  elements (<<>>       *)
(*   unless Tuple)                                                         *)
(* Strings are sequences of Unicode code points everywhere in the spec.    *)
(***************************************************************************)
EXTENDS Float64

VInt(i)   == [t |-> "Int",     i |-> i,    f |-> <<>>, s |-> <<>>, b |-> FALSE, k |-> <<>>]
VFloat(f) == [t |-> "Float",   i |-> <<>>, f |-> f,    s |-> <<>>, b |-> FALSE, k |-> <<>>]
VStr(s)   == [t |-> "String",  i |-> <<>>, f |-> <<>>, s |-> s,    b |-> FALSE, k |-> <<>>]
VBool(b)  == [t |-> "Boolean", i |-> <<>>, f |-> <<>>, s |-> <<>>, b |-> b,     k |-> <<>>]
VTuple(k) == [t |-> "Tuple",   i |-> <<>>, f |-> <<>>, s |-> <<>>, b |-> FALSE, k |-> k]
VEmpty    == [t |-> "Empty",   i |-> <<>>, f |-> <<>>, s |-> <<>>, b |-> FALSE, k |-> <<>>]
VNat(n)   == VInt(FromNat(n))

TypeOf(v) == v.t                       \* ValueType::from
IsNumber(v) == v.t \in {"Int", "Float"}
AsNumber(v) == IF v.t = "Int" THEN IntToFloat(v.i) ELSE v.f        \* Value::as_number on a number

\* derived PartialEq of Value: variants never equal across types, floats compare by IEEE equality
RECURSIVE ValEq(_, _)
ValEq(x, y) ==
  /\ x.t = y.t
  /\ CASE x.t = "Int" -> x.i = y.i
       [] x.t = "Float" -> FEq(x.f, y.f)
       [] x.t = "String" -> x.s = y.s
       [] x.t = "Boolean" -> x.b = y.b
       [] x.t = "Tuple" -> /\ Len(x.k) = Len(y.k)
                           /\ \A j \in 1..Len(x.k) : ValEq(x.k[j], y.k[j])
       [] OTHER -> TRUE

\* equality used by the conformance side: bit-exact, except that all NaNs are one class
RECURSIVE SameValue(_, _)
SameValue(x, y) ==
  /\ x.t = y.t
  /\ CASE x.t = "Float" -> (x.f = y.f) \/ (IsNaN(x.f) /\ IsNaN(y.f))
       [] x.t = "Tuple" -> /\ Len(x.k) = Len(y.k)
                           /\ \A j \in 1..Len(x.k) : SameValue(x.k[j], y.k[j])
       [] OTHER -> x = y

\* compact JSON projection of a value (emitted cases only; TLC never compares these)
RECURSIVE JVal(_)
JVal(v) == CASE v.t = "Int" -> [t |-> "I", i |-> v.i]
             [] v.t = "Float" -> [t |-> "F", f |-> v.f]
             [] v.t = "String" -> [t |-> "S", s |-> v.s]
             [] v.t = "Boolean" -> [t |-> "B", b |-> v.b]
             [] v.t = "Tuple" -> [t |-> "T", k |-> [j \in 1..Len(v.k) |-> JVal(v.k[j])]]
             [] OTHER -> [t |-> "E"]

RECURSIVE IsValue(_)
IsValue(v) ==
  /\ DOMAIN v = {"t", "i", "f", "s", "b", "k"}
  /\ CASE v.t = "Int" -> IsInt64Shape(v.i) /\ InRange(Sign(v.i), Mag(v.i))
       [] v.t = "Float" -> IsFloatShape(v.f)
       [] v.t = "Tuple" -> \A j \in 1..Len(v.k) : IsValue(v.k[j])
       [] OTHER -> v.t \in {"String", "Boolean", "Empty"}
=============================================================================
