------------------------------ MODULE Messages ------------------------------
(***************************************************************************)
(* The text of error messages (Display for EvalexprError,                  *)
(* src/error/display.rs), including the derived Debug rendering of the     *)
(* values they carry.  ErrorMessage(e) is a function of the error record   *)
(* alone, so it is bound to the code independently of evaluation: the      *)
(* recorders log (error, message) pairs and Trace_Api.tla requires the     *)
(* message to be this one.  Restricted to payload strings of printable     *)
(* ASCII (Rust's Debug escaping of other characters is not modelled) and   *)
(* to the variants the evaluator produces.                                 *)
(***************************************************************************)
EXTENDS Builtins, ErrorTexts

SimpleText(s) == \A i \in 1..Len(s) : s[i] >= 32 /\ s[i] <= 126
NatText(n) == ToDecimalText(FromNat(n))
DebugStr(s) == QuoteText(s)                        \* for printable ASCII, {:?} escapes exactly `"` and `\`

RECURSIVE DebugValue(_)
RECURSIVE DebugElems(_, _)
DebugElems(k, i) == IF i > Len(k) THEN <<>>
                    ELSE (IF i > 1 THEN T_CommaSpace ELSE <<>>) \o DebugValue(k[i]) \o DebugElems(k, i + 1)
DebugValue(v) ==
  CASE v.t = "Int" -> T_DbgInt \o ToDecimalText(v.i) \o T_CloseParen
    [] v.t = "Float" -> T_DbgFloat \o Prim1("fdebug", v.f) \o T_CloseParen
    [] v.t = "String" -> T_DbgString \o DebugStr(v.s) \o T_CloseParen
    [] v.t = "Boolean" -> T_DbgBoolean \o (IF v.b THEN TrueText ELSE FalseText) \o T_CloseParen
    [] v.t = "Tuple" -> T_DbgTuple \o DebugElems(v.k, 1) \o T_CloseTuple
    [] OTHER -> T_DbgEmpty

TypeText(t) == CASE t = "String" -> T_TyString [] t = "Int" -> T_TyInt [] t = "Float" -> T_TyFloat
                 [] t = "Boolean" -> T_TyBoolean [] t = "Tuple" -> T_TyTuple [] OTHER -> T_TyEmpty
RECURSIVE TypeListFrom(_, _)
TypeListFrom(ts, i) == IF i > Len(ts) THEN <<>>
                       ELSE (IF i > 1 THEN T_CommaSpace ELSE <<>>) \o TypeText(ts[i]) \o TypeListFrom(ts, i + 1)
TypeList(ts) == T_OpenBracket \o TypeListFrom(ts, 1) \o T_CloseBracket

RECURSIVE SimpleValue(_)
SimpleValue(v) == CASE v.t = "String" -> SimpleText(v.s)
                    [] v.t = "Tuple" -> \A j \in 1..Len(v.k) : SimpleValue(v.k[j])
                    [] OTHER -> TRUE
Modelled(e) == /\ SimpleValue(e.a) /\ SimpleValue(e.b) /\ SimpleText(e.n)
               /\ e.e \notin {"WrongFunctionArgumentAmount", "UnmatchedPartialToken", "IntFromUsize", "IntIntoUsize", "InvalidRegex",
                              "RandNotEnabled", "Other"}

Expected(prefix, e) == prefix \o DebugValue(e.a) \o T_Dot
Arith(prefix, sym, e) == prefix \o DisplayValue(e.a) \o sym \o DisplayValue(e.b)
ErrorMessage(e) ==
  CASE e.e = "WrongOperatorArgumentAmount" -> T_OpArgs1 \o NatText(e.x) \o T_OpArgs2 \o NatText(e.y) \o T_Dot
    [] e.e = "ExpectedString" -> Expected(T_ExpString, e)
    [] e.e = "ExpectedInt" -> Expected(T_ExpInt, e)
    [] e.e = "ExpectedFloat" -> Expected(T_ExpFloat, e)
    [] e.e = "ExpectedNumber" -> Expected(T_ExpNumber, e)
    [] e.e = "ExpectedNumberOrString" -> Expected(T_ExpNumOrStr, e)
    [] e.e = "ExpectedBoolean" -> Expected(T_ExpBoolean, e)
    [] e.e = "ExpectedTuple" -> Expected(T_ExpTuple, e)
    [] e.e = "ExpectedEmpty" -> Expected(T_ExpEmpty, e)
    [] e.e = "ExpectedFixedLengthTuple" -> T_ExpTupleLen \o NatText(e.x) \o T_ButGot \o DebugValue(e.a) \o T_Dot
    [] e.e = "ExpectedRangedLengthTuple" -> T_ExpTupleLen \o NatText(e.x) \o T_To \o NatText(e.y) \o T_ButGot \o DebugValue(e.a) \o T_Dot
    [] e.e = "AppendedToLeafNode" -> T_AppendedToLeaf
    [] e.e = "PrecedenceViolation" -> T_PrecViolation
    [] e.e = "VariableIdentifierNotFound" -> T_VarNotFound \o DebugStr(e.n) \o T_Dot
    [] e.e = "FunctionIdentifierNotFound" -> T_FnNotFound \o DebugStr(e.n) \o T_Dot
    [] e.e = "TypeError" -> T_ExpOneOf \o TypeList(e.ts) \o T_ButGot \o DebugValue(e.a) \o T_Dot
    [] e.e = "WrongTypeCombination" -> T_WrongCombo1 \o e.n \o T_WrongCombo2 \o TypeList(e.ts)       \* n: Debug of the operator
    [] e.e = "UnmatchedLBrace" -> T_UnmatchedL
    [] e.e = "UnmatchedRBrace" -> T_UnmatchedR
    [] e.e = "UnmatchedDoubleQuote" -> T_UnmatchedQuote
    [] e.e = "MissingOperatorOutsideOfBrace" -> T_MissingOp
    [] e.e = "AdditionError" -> Arith(T_Adding, T_Plus, e)
    [] e.e = "SubtractionError" -> Arith(T_Subtracting, T_Minus, e)
    [] e.e = "NegationError" -> T_Negating \o DisplayValue(e.a)
    [] e.e = "MultiplicationError" -> Arith(T_Multiplying, T_Times, e)
    [] e.e = "DivisionError" -> Arith(T_Dividing, T_Over, e)
    [] e.e = "ModulationError" -> Arith(T_Modulating, T_Percent, e)
    [] e.e = "ContextNotMutable" -> T_NotMutable
    [] e.e = "IllegalEscapeSequence" -> T_IllegalEscape \o e.n
    [] e.e = "BuiltinFunctionsCannotBeEnabled" -> T_CannotEnable
    [] e.e = "BuiltinFunctionsCannotBeDisabled" -> T_CannotDisable
    [] e.e = "OutOfBoundsAccess" -> T_OutOfBounds
    [] e.e = "CustomMessage" -> T_ErrorColon \o e.n
=============================================================================
