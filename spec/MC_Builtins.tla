----------------------------- MODULE MC_Builtins -----------------------------
(***************************************************************************)
(* C10: every builtin name applied to every argument shape up to arity 3   *)
(* over the value pools: no argument, every pool value, every ordered pair *)
(* of the pair pool, every triple of the triple pool (for the functions    *)
(* that accept tuples of any length or three arguments), and 4-tuples as   *)
(* a wrong arity.  The allowed outcome set comes from the declarative      *)
(* BuiltinAllowed; the theorem checked here is that the deterministic      *)
(* ApplyBuiltin used by Eval.tla always lies inside it.                    *)
(***************************************************************************)
EXTENDS Api, Pools
VARIABLES id, arg, lvl

Ids == {BuiltinId[n] : n \in DOMAIN BuiltinId}
TripleIds == {"if", "str::substring", "min", "max", "contains", "math::pow", "len", "typeof", "str::from"}
Init == lvl = 1 /\ id \in Ids /\ arg = VEmpty
Next == /\ lvl = 1 /\ lvl' = 2 /\ id' = id
        /\ \/ arg' = VEmpty                                                        \* f()
           \/ arg' \in Pool                                                        \* f(a)
           \/ \E x \in PairPool, y \in PairPool : arg' = VTuple(<<x, y>>)            \* f(a, b)
           \/ /\ id \in TripleIds
              /\ \E x \in TriplePool, y \in TriplePool, z \in TriplePool : arg' = VTuple(<<x, y, z>>)
           \/ arg' = VTuple(<<VNat(1), VNat(2), VNat(3), VNat(4)>>)

R == ApplyBuiltin(id, arg)
Allowed == BuiltinAllowed(id, arg)
ToPat(p) == CASE p.p = "val" -> PatVal(p.v) [] p.p = "err" -> PatAnyErr [] OTHER -> PatAny

\* the call is written f(a), f(a, b), f(a, b, c), f(a, b, c, d) or f() with the elements bound as variables;
\* a pool value that is itself a tuple is passed as the single variable a
VarNames == <<<<97>>, <<98>>, <<99>>, <<100>>>>
Spread == lvl = 2 /\ arg.t = "Tuple" /\ Len(arg.k) \in 2..4 /\ arg \notin Pool
Elems == IF Spread THEN arg.k ELSE IF arg.t = "Empty" THEN <<>> ELSE <<arg>>
Ctx == HashMapCtx([n \in {VarNames[i] : i \in 1..Len(Elems)} |-> Elems[CHOOSE i \in 1..Len(Elems) : VarNames[i] = n]],
                  EmptyMap, FALSE)
ArgText == Join([i \in 1..Len(Elems) |-> VarNames[i]], <<44, 32>>)
Src == BuiltinSpelling[id] \o <<40>> \o ArgText \o <<41>>
\* `f()` passes the empty value and so does `f(a)` with a bound to the empty value: emit the latter as well
Case == [kind |-> "eval", check |-> "builtin", src |-> Src, ctx |-> CtxJson(Ctx), level |-> "string", ek |-> "value",
         mode |-> "imm", allowed |-> JPats({ToPat(p) : p \in Allowed}), exact |-> FALSE, det |-> TRUE, post |-> CtxJson(Ctx),
         log |-> <<>>, nontrivial |-> R.ok]
Emit == lvl = 2 => PrintT(ToJson(Case))

SpecTheorems ==
  lvl = 2 =>
    /\ Allowed # {}
    /\ (PAny \in Allowed \/ PatternOf(R) \in Allowed \/ (\E p \in Allowed : p.p = "val" /\ R.ok /\ SameValue(p.v, R.v)))
    /\ (R.ok => IsValue(R.v))
=============================================================================
