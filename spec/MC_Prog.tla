------------------------------- MODULE MC_Prog -------------------------------
(***************************************************************************)
(* Programs with side effects: assignments, calls to recording user        *)
(* functions, failing and succeeding sub-expressions, built from atoms by  *)
(* the combinators + && || == , ; - ! and call nesting.  An initial state   *)
(* is an atom; every step extends the program by one more atom on either   *)
(* side or wraps it (complete to Depth + 1 atoms; each program is a state  *)
(* and is emitted once).                                                   *)
(*                                                                         *)
(* Family "order" (C08): the triple (result, context afterwards, ordered   *)
(*   call log) in mutable mode, from three initial contexts.               *)
(* Family "imm" (C11): the same programs plus all nine assignment          *)
(*   operators, evaluated in immutable AND mutable mode on five context    *)
(*   kinds; theorem: immutable = projection of mutable, context unchanged. *)
(* Family "entry" (C12): every program through all 48 entry points.        *)
(***************************************************************************)
EXTENDS Api
CONSTANTS Family, Depth          \* Depth: how many extension steps (2 = complete to three atoms)
VARIABLES p, lvl

NX == <<120>>
NU == <<117>>
NFf == <<102>>
NG == <<103>>
NH == <<104>>
C1 == NConst(VNat(1), <<49>>)
C0 == NConst(VNat(0), <<48>>)
C2 == NConst(VNat(2), <<50>>)
CS == NConst(VStr(<<115>>), <<34, 115, 34>>)
CT == NConst(VBool(TRUE), TrueText)
CF == NConst(VBool(FALSE), FalseText)
RX == NLeaf("Read", NX)
WX == NLeaf("Write", NX)
Bin(o, l, r) == NOp(o, <<l, r>>)
CallN(f, a) == N("Call", f, VEmpty, <<a>>)

AtomsOrder == {Bin("Assign", WX, C1), Bin("AddAssign", WX, C1), RX, NLeaf("Read", NU), C1, CS, CT,
               Bin("Div", C1, C0), CallN(NFf, C2), CallN(NH, C1), CallN(NG, RX)}
AtomsImm == AtomsOrder \cup
            {Bin("SubAssign", WX, C1), Bin("MulAssign", WX, C2), Bin("DivAssign", WX, C0), Bin("ModAssign", WX, C2),
             Bin("ExpAssign", WX, C2), Bin("AndAssign", WX, CT), Bin("OrAssign", WX, CF), Bin("Assign", WX, CT),
             CallN(<<109, 97, 120>>, NOp("Tuple", <<RX, C2>>))}                       \* max(x, 2): a builtin
AtomsEntry == {C1, CS, CT, CF, NEmpty, NOp("Tuple", <<C1, CS>>), NConst(VFloat(<<16376, 0, 0, 0>>), <<49, 46, 53>>), RX,
               Bin("Assign", WX, C2), Bin("Div", C1, C0), NLeaf("Read", NU), CallN(NFf, C2), CallN(NH, C1)}
\* "deep": fewer atoms and combinators, one more level (programs of four atoms)
AtomsDeep == {Bin("Assign", WX, C1), Bin("AddAssign", WX, C1), RX, CallN(NFf, C2), CallN(NH, C1)}
\* "entrydeep": the entry-point family one level deeper, over fewer atoms (every result type that an entry point projects, an
\* assignment, a call, an undefined variable)
AtomsEntryDeep == {C1, CT, CF, CS, RX, Bin("Assign", WX, C2), NLeaf("Read", NU), CallN(NFf, C2)}
Atoms == CASE Family = "order" -> AtomsOrder [] Family = "imm" -> AtomsImm [] Family = "deep" -> AtomsDeep
           [] Family = "entrydeep" -> AtomsEntryDeep [] OTHER -> AtomsEntry
Combs == CASE Family = "entry" -> {"Add", "Chain", "Tuple", "Eq", "And", "Or"} [] Family = "entrydeep" -> {"Add", "And", "Or", "Chain", "Tuple"} [] Family = "deep" -> {"Add", "And", "Tuple", "Chain"}
           [] OTHER -> {"Add", "Mul", "And", "Or", "Eq", "Tuple", "Chain"}
Wraps == IF Family \in {"entry", "entrydeep"} THEN {} ELSE {NFf, NH}
AssignWraps == CASE Family = "imm" -> AssignNodes [] Family \in {"order", "deep"} -> {"Assign", "AddAssign", "OrAssign"} [] OTHER -> {"Assign"}

\* the builtin `if` is an ordinary function: all three arguments are evaluated, whatever the condition
NIf == <<105, 102>>
IfWraps(q) == IF Family \in {"order", "deep"}
              THEN {CallN(NIf, NOp("Tuple", t)) : t \in {<<CT, q, CallN(NFf, C2)>>, <<CF, q, Bin("Assign", WX, C1)>>,
                                                         <<CT, CallN(NFf, C2), q>>, <<CF, Bin("Assign", WX, C1), q>>, <<q, C1, CallN(NFf, C2)>>}}
              ELSE {}

\* flatten nested sequences of the same kind the way the grammar does (a, b, c is ONE tuple)
Seq2(o, l, r) == NOp(o, (IF l.o = o THEN l.k ELSE <<l>>) \o <<r>>)
Combine(o, l, r) == IF o \in {"Tuple", "Chain"} THEN Seq2(o, l, r) ELSE Bin(o, l, r)
\* a chain inside a tuple needs parentheses and stays nested; WFAst shapes only
Extend(q) == {Combine(o, q, a) : o \in Combs, a \in Atoms}
             \cup {Combine(o, a, q) : o \in Combs \ {"Tuple", "Chain"}, a \in Atoms}
             \cup {CallN(f, q) : f \in Wraps}
             \cup {Bin(o, WX, q) : o \in AssignWraps}                    \* the program as the right-hand side of an assignment
             \cup IfWraps(q)
             \cup (IF Family \in {"entry", "entrydeep"} THEN {} ELSE {NOp("Neg", <<q>>), NOp("Not", <<q>>)})
Init == lvl = 0 /\ p \in Atoms
Next == lvl < Depth /\ lvl' = lvl + 1 /\ p' \in Extend(p)

Funcs == (NFf :> BehId) @@ (NG :> BehConst(VNat(7))) @@ (NH :> BehFail)
VarCtxs == {HashMapCtx(EmptyMap, Funcs, FALSE), HashMapCtx((NX :> VNat(1)), Funcs, FALSE),
            HashMapCtx((NX :> VStr(<<115>>)), Funcs, FALSE)}
           \* a Float variable: x = 2 fails with ExpectedFloat INSIDE the evaluation - not to be confused with a projection error
           \cup (IF Family \in {"entry", "entrydeep"} THEN {HashMapCtx((NX :> VFloat(<<16376, 0, 0, 0>>)), Funcs, FALSE)} ELSE {})
ImmCtxs == {HashMapCtx((NX :> VNat(1)), Funcs, FALSE), HashMapCtx((NX :> VBool(TRUE)), Funcs, TRUE),
            HashMapCtx(EmptyMap, Funcs, FALSE), ReadOnlyCtx(HashMapCtx((NX :> VNat(1)), Funcs, FALSE)),
            EmptyCtx, EmptyBuiltinCtx,
            \* a user function that shadows the builtin `max`: both walks must resolve it the same way
            \* ... and a variable whose NAME is the text of a literal (set through the API): the expression `true` is the literal
            HashMapCtx((NX :> VNat(1)) @@ (TrueText :> VNat(5)), Funcs @@ (<<109, 97, 120>> :> BehConst(VStr(<<117>>))), FALSE)}
Ctxs == IF Family = "imm" THEN ImmCtxs ELSE VarCtxs

Toks == Render(p, Minimal)
Src == SourceOf(Toks)

EvalCase(check, c, mode, level, ek, r) ==
  [kind |-> "eval", check |-> check, src |-> Src, ctx |-> CtxJson(c), level |-> level, ek |-> ek, mode |-> mode,
   allowed |-> {JPat(PatOf(ProjectKind(ek, r.r)))},
   \* error variants are compared exactly where the property names them (the expected-type error of a typed entry
   \* point); an evaluation error is compared by class, so that a refactoring inside a class raises no alarm
   exact |-> (check = "entry" /\ r.r.ok), det |-> TRUE,
   post |-> CtxJson(r.st.ctx), log |-> JLog(r.st.log)]

HasMutableStore(c) == c.kind \in {"HashMap", "ReadOnly"}
EmitOrder == \A c \in Ctxs : PrintT(ToJson(EvalCase("order", c, "mut", "string", "value", Core("mut", p, St(c, <<>>)))))
EmitImm == \A c \in Ctxs :
             /\ PrintT(ToJson(EvalCase("imm", c, "imm", "string", "value", Core("imm", p, St(c, <<>>)))))
             /\ (HasMutableStore(c) => PrintT(ToJson(EvalCase("imm", c, "mut", "tree", "value", Core("mut", p, St(c, <<>>))))))
EmitEntry == \A c \in Ctxs : \A level \in {"string", "tree"} : \A ek \in EntryKinds : \A mode \in EntryModes :
               PrintT(ToJson(EvalCase("entry", c, mode, level, ek, Core(mode, p, St(c, <<>>)))))
Emit == CASE Family \in {"order", "deep"} -> EmitOrder [] Family = "imm" -> EmitImm [] OTHER -> EmitEntry

(***************************************************************************)
(* Theorems of the specification, checked on every program.                *)
(***************************************************************************)
\* C11: immutable evaluation is the projection of mutable evaluation; it never changes the context
ImmIsProjection ==
  \A c \in Ctxs :
    LET st == St(c, <<>>)
        im == Eval(p, st, "imm")
        mu == Eval(p, st, "mut")
        ra == ReachesAssign(p, st)
    IN /\ im.st.ctx = c
       /\ (ra.hit => ~im.r.ok /\ im.r.e = ContextNotMutable)
       /\ (~ra.hit => im.r = mu.r /\ mu.st.ctx = c /\ im.st.log = mu.st.log)
       \* contexts without variable storage reject every assignment the same way in mutable mode
       /\ (c.kind = "ReadOnly" => mu.st.ctx = c)
\* C08: operands are evaluated left to right and the first error wins, with the effects so far kept
FirstErrorWins ==
  \A c \in Ctxs :
    LET st == St(c, <<>>) IN
    p.o \in PlainBinNodes \cup {"Tuple", "Chain"} /\ Len(p.k) >= 2 =>
      LET l == Eval(p.k[1], st, "mut")
          whole == Eval(p, st, "mut") IN
      /\ (~l.r.ok => whole = l)
      /\ (l.r.ok /\ Len(p.k) = 2 =>
            LET r == Eval(p.k[2], l.st, "mut") IN
            /\ (~r.r.ok => whole = r)
            /\ (r.r.ok => whole.st = r.st))                     \* both operands were evaluated, exactly once
\* C12: repeating an evaluation from an equal state gives an equal result (Core is a function of its arguments),
\* and the fresh mode never touches the given context
Idempotent ==
  \A c \in Ctxs : \A mode \in EntryModes :
    LET st == St(c, <<>>) IN Core(mode, p, st) = Core(mode, p, st) /\ Core("fresh", p, st).st = st
SpecTheorems ==
  /\ WFAst(p)
  /\ Classify(Toks) = [class |-> "WF", tree |-> p]              \* the source text of the case denotes this program
  /\ (Family = "imm" => ImmIsProjection)
  /\ (Family \in {"order", "deep"} => FirstErrorWins)
  /\ (Family \in {"entry", "entrydeep"} => Idempotent)
=============================================================================
