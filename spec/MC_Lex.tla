------------------------------- MODULE MC_Lex -------------------------------
(***************************************************************************)
(* C06: literals.  TLC grows a string character by character over a small  *)
(* alphabet and, for every string, emits it in several embeddings with the *)
(* tree the specification assigns to the resulting source text             *)
(* (Lex, then Classify).                                                   *)
(*   Family "words":   the string w is a word; sources  w,  w-w,  w+w,     *)
(*                     a-w,  we-3,  w 1  (juxtaposition),  0xw,  w-1,  w+9,    *)
(*                     -w,  +w,  -w^2                                      *)
(*   Family "raw":     the string is the source text itself (blanks at     *)
(*                     either end, lone & and |, stray quotes, comments)   *)
(*   Family "strings": the string t is a string body; sources  quote(t)    *)
(*                     (escaped: denotes exactly t) and "t" (raw: may be   *)
(*                     malformed)                                          *)
(* Theorems checked on the specification: quote(t) lexes to the single     *)
(* string literal t; for sources without strings, comments and whitespace  *)
(* the token texts concatenate to the source (nothing is lost or invented).*)
(***************************************************************************)
EXTENDS Api
CONSTANTS Family, MaxLen
VARIABLE s

WordChars == {48, 49, 57, 97, 101, 69, 120, 102, 46, 95}                 \* 0 1 9 a e E x f . _
BodyChars == {97, QUOTE, BSL, 47, 42, NL, 13, 32, 43, 228, 128512}        \* a " \ / * newline CR space + a-umlaut emoji
RawChars == {97, 38, 124, QUOTE, BSL, 32, 49, 43, 47, 42}                  \* a & | " \ space 1 + / *  : raw source text
\* "strparen": string bodies made of quotes, backslashes and parentheses - a parenthesis inside a string literal is text
ParenChars == {97, QUOTE, BSL, 40, 41}
Alphabet == CASE Family = "words" -> WordChars [] Family = "raw" -> RawChars [] Family = "strparen" -> ParenChars [] OTHER -> BodyChars
\* words the small alphabet cannot spell: the RustFloatWord deviation, the i64 boundary, letter case, extreme exponents
SpecialWords == {<<105, 110, 102>>,
                 <<73, 110, 102>>,
                 <<73, 78, 70>>,
                 <<105, 110, 102, 105, 110, 105, 116, 121>>,
                 <<73, 110, 102, 105, 110, 105, 116, 121>>,
                 <<110, 97, 110>>,
                 <<78, 97, 78>>,
                 <<78, 65, 78>>,
                 <<116, 114, 117, 101>>,
                 <<102, 97, 108, 115, 101>>,
                 <<84, 114, 117, 101>>,
                 <<70, 65, 76, 83, 69>>,
                 <<48, 120, 55, 102, 102, 102, 102, 102, 102, 102, 102, 102, 102, 102, 102, 102, 102, 102>>,
                 <<48, 120, 56, 48, 48, 48, 48, 48, 48, 48, 48, 48, 48, 48, 48, 48, 48, 48>>,
                 <<48, 120, 102, 102, 102, 102, 102, 102, 102, 102, 102, 102, 102, 102, 102, 102, 102, 102, 102, 102>>,
                 <<57, 50, 50, 51, 51, 55, 50, 48, 51, 54, 56, 53, 52, 55, 55, 53, 56, 48, 55>>,
                 <<57, 50, 50, 51, 51, 55, 50, 48, 51, 54, 56, 53, 52, 55, 55, 53, 56, 48, 56>>,
                 <<57, 57, 57, 57, 57, 57, 57, 57, 57, 57, 57, 57, 57, 57, 57, 57, 57, 57, 57, 57>>,
                 <<48, 88, 49, 102>>,
                 <<49, 95, 48, 48, 48>>,
                 <<48, 120>>,
                 <<48, 120, 103>>,
                 <<49, 101, 52, 48, 48>>,
                 <<49, 101, 45, 52, 48, 48>>,
                 <<52, 46, 57, 101, 45, 51, 50, 52>>,
                 <<49, 46, 55, 57, 55, 54, 57, 51, 49, 51, 52, 56, 54, 50, 51, 49, 53, 55, 101, 51, 48, 56>>,
                 <<48, 46, 49>>,
                 <<48, 48, 48, 49, 50>>,
                 <<48, 120, 48, 48, 102, 102>>,
                 <<49, 101, 53>>,
                 <<49, 69, 53>>,
                 <<49, 46, 101, 53>>,
                 <<46, 53, 101, 49>>,
                 <<53, 46>>,
                 <<105, 110, 102, 49>>,
                 <<110, 97, 110, 120>>,
                 <<105, 110, 102, 105, 110, 105, 116>>}
\* string bodies the small alphabet cannot spell: every escape other than \\ and \" is illegal, whatever follows the backslash
SpecialBodies == {<<BSL, 110>>, <<BSL, 116>>, <<BSL, 48>>, <<BSL, 39>>, <<BSL, 120, 52, 49>>, <<97, BSL, 117, 123, 52, 49, 125>>,
                  <<BSL, 117, 123, 68, 56, 48, 48, 125>>, <<BSL, 117, 123, 49, 49, 48, 48, 48, 48, 125>>, <<BSL, 117, 123, 125>>,
                  <<BSL, 117>>, <<BSL, 85, 43, 52, 49>>, <<BSL, 13>>, <<BSL, 10>>, <<BSL, 32>>, <<BSL, BSL, 110>>, <<BSL, QUOTE, BSL, 110>>}
\*                 \n  \t  \0  \'  \x41  a\u{41}  \u{D800}  \u{110000}  \u{}  \u  \U+41  \CR  \LF  \space  \\n (legal)  \"\n
Init == s = <<>>
Next == Len(s) < MaxLen /\ \E c \in Alphabet : s' = Append(s, c)

SourcesOf(w) ==
  IF Family = "raw" THEN {w}            \* the string itself is the source: leading / trailing blanks, lone & and |, stray quotes
  ELSE IF Family = "words"
  THEN {w, w \o <<45>> \o w, w \o <<43>> \o w, <<97, 45>> \o w, w \o <<101, 45, 51>>, w \o <<32, 49>>, <<48, 120>> \o w,
        w \o <<45, 49>>, w \o <<43, 57>>,                                   \* w-1, w+9: a signed exponent after any head (1e, 1E, .5e, 1.E)
        <<45>> \o w, <<43>> \o w,                                          \* -w, +w: a sign glued to the word is an operator, never part of it
        <<45>> \o w \o <<94, 50>>}                                         \* -w^2: ... and binds weaker than ^
  ELSE IF Family = "strparen"
  THEN {QuoteText(w), <<108, 101, 110, 40>> \o QuoteText(w) \o <<41, 32, 43, 32, 49>>,                 \* "w" and len("w") + 1
        <<40>> \o QuoteText(w) \o <<41>>, <<QUOTE>> \o w \o <<QUOTE>>}
  ELSE {QuoteText(w), <<QUOTE>> \o w \o <<QUOTE>>, <<120, 32, 61, 32>> \o QuoteText(w) \o <<59, 32, 120>>}
Sources == SourcesOf(s)

Case(w, src) ==
  LET lx == Lex(src)
      b == Build(src) IN
  [kind |-> "parse", check |-> "literal", src |-> src, bal |-> (~lx.ok \/ Balanced(lx.toks)),
   \* inputs the documentation does not cover (integers beyond i64) are only required to return normally
   \* ... except the SHAPE of the tree when the only open point is the value of such a literal ("WFU")
   class |-> IF b.class = "LEXERR" THEN "LEXERR"
             ELSE IF lx.unclaimed /\ ~lx.kf1 /\ b.class = "WF" THEN "WFU"
             ELSE IF lx.unclaimed \/ b.class = "UNSPEC" THEN "UNSPEC" ELSE b.class,
   tree |-> JTree(b.tree), occ |-> IF b.class = "WF" THEN Occurrences(b.tree) ELSE <<>>,
   \* named deviation RustFloatWord (KNOWN_FINDINGS.txt, KF-1): the finding key is the word
   fk |-> IF lx.ok /\ lx.kf1 THEN LowerWord(w) ELSE <<>>]
Emit == /\ (Len(s) >= 1 => \A src \in Sources : PrintT(ToJson(Case(s, src))))
        /\ (s = <<>> /\ Family = "words" => \A w \in SpecialWords : \A src \in SourcesOf(w) : PrintT(ToJson(Case(w, src))))
        /\ (s = <<>> /\ Family = "strings" =>
              \A b \in SpecialBodies : LET src == <<QUOTE>> \o b \o <<QUOTE>> IN
                 PrintT(ToJson(Case(b, src))) /\ PrintT(ToJson(Case(b, <<108, 101, 110, 32>> \o src \o <<43, 49>>))))

RECURSIVE ConcatTexts(_, _)
ConcatTexts(ts, i) == IF i > Len(ts) THEN <<>> ELSE ts[i].x \o ConcatTexts(ts, i + 1)
NoBlank(src) == \A i \in 1..Len(src) : src[i] \notin WhiteSpace /\ src[i] # QUOTE /\ src[i] # 47
SpecTheorems ==
  /\ (Family \in {"strings", "strparen"} =>
        /\ Lex(QuoteText(s)) = [ok |-> TRUE, toks |-> <<TLit(VStr(s), QuoteText(s))>>, err |-> "", kf1 |-> FALSE, unclaimed |-> FALSE]
        /\ Build(QuoteText(s)).class = "WF" /\ Build(QuoteText(s)).tree = NConst(VStr(s), QuoteText(s)))
  /\ (Family = "words" =>
        \A src \in Sources : LET lx == Lex(src) IN
           /\ lx.ok                                       \* words and + - never produce a lexical error
           /\ (NoBlank(src) => ConcatTexts(lx.toks, 1) = src)
           /\ \A i \in 1..Len(lx.toks) : lx.toks[i].k = "lit" => IsValue(lx.toks[i].v))
=============================================================================
