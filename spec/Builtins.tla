------------------------------ MODULE Builtins ------------------------------
(***************************************************************************)
(* The 49 builtin functions of evalexpr, written from the README table     *)
(* ("Builtin Functions"), not from src/function/builtin.rs.  A builtin     *)
(* receives ONE argument value: `f(a, b)` passes the 2-tuple, `f()` the    *)
(* empty value.                                                            *)
(*                                                                         *)
(* ApplyBuiltin(id, arg) is the deterministic semantics used by Eval.tla   *)
(* (where the documentation leaves a choice, it follows the crate).        *)
(* BuiltinAllowed(id, arg) is the outcome SET the documentation allows,    *)
(* used by the single-call model MC_Builtins: it is declarative (e.g.      *)
(* min = "an argument that no other argument is smaller than") and         *)
(* contains ApplyBuiltin's outcome - a theorem MC_Builtins checks.         *)
(* Outcome patterns: [p |-> "val", v], [p |-> "err"] (any error),          *)
(* [p |-> "any"] (undocumented; only totality is claimed).                 *)
(***************************************************************************)
EXTENDS Operators, BuiltinNames

IsBuiltinName(n) == n \in DOMAIN BuiltinId

\* the indexing unit shared by len and str::substring ("bytes" or "chars"): a model parameter, probed by the driver
LenUnit == IF "LENUNIT" \in DOMAIN IOEnv THEN IOEnv.LENUNIT ELSE "bytes"
StrLen(s) == IF LenUnit = "bytes" THEN ByteLen(s) ELSE Len(s)
StrSlice(s, a, b) == IF LenUnit = "bytes" THEN ByteSlice(s, a, b)
                     ELSE IF a > b \/ b > Len(s) THEN [ok |-> FALSE, s |-> <<>>] ELSE [ok |-> TRUE, s |-> SubSeq(s, a + 1, b)]

UnaryMath == {"math::ln", "math::log2", "math::log10", "math::exp", "math::exp2", "math::cos", "math::acos",
              "math::cosh", "math::acosh", "math::sin", "math::asin", "math::sinh", "math::asinh", "math::tan",
              "math::atan", "math::tanh", "math::atanh", "math::sqrt", "math::cbrt", "floor", "round", "ceil"}
BinaryMath == {"math::log", "math::pow", "math::atan2", "math::hypot"}
FloatTests == {"math::is_nan", "math::is_finite", "math::is_infinite", "math::is_normal"}
\* name of the libm primitive: the function name without its namespace
PrimOf(id) == CASE id = "math::ln" -> "ln" [] id = "math::log2" -> "log2" [] id = "math::log10" -> "log10"
                [] id = "math::exp" -> "exp" [] id = "math::exp2" -> "exp2" [] id = "math::cos" -> "cos"
                [] id = "math::acos" -> "acos" [] id = "math::cosh" -> "cosh" [] id = "math::acosh" -> "acosh"
                [] id = "math::sin" -> "sin" [] id = "math::asin" -> "asin" [] id = "math::sinh" -> "sinh"
                [] id = "math::asinh" -> "asinh" [] id = "math::tan" -> "tan" [] id = "math::atan" -> "atan"
                [] id = "math::tanh" -> "tanh" [] id = "math::atanh" -> "atanh" [] id = "math::sqrt" -> "sqrt"
                [] id = "math::cbrt" -> "cbrt" [] id = "floor" -> "floor" [] id = "round" -> "round" [] id = "ceil" -> "ceil"
                [] id = "math::log" -> "flog" [] id = "math::pow" -> "fpow" [] id = "math::atan2" -> "fatan2"
                [] id = "math::hypot" -> "fhypot"

\* ---- Display of values (src/value/display.rs), used by str::from
TypeNameLower(v) == CASE v.t = "String" -> <<115, 116, 114, 105, 110, 103>> [] v.t = "Float" -> <<102, 108, 111, 97, 116>>
                      [] v.t = "Int" -> <<105, 110, 116>> [] v.t = "Boolean" -> <<98, 111, 111, 108, 101, 97, 110>>
                      [] v.t = "Tuple" -> <<116, 117, 112, 108, 101>> [] OTHER -> <<101, 109, 112, 116, 121>>
RECURSIVE DisplayValue(_)
RECURSIVE DisplayElems(_, _)
DisplayElems(k, i) == IF i > Len(k) THEN <<>>
                      ELSE (IF i > 1 THEN <<44, 32>> ELSE <<>>) \o DisplayValue(k[i]) \o DisplayElems(k, i + 1)
DisplayValue(v) ==
  CASE v.t = "String" -> <<QUOTE>> \o v.s \o <<QUOTE>>                 \* not escaped
    [] v.t = "Float" -> Prim1("fdisplay", v.f)
    [] v.t = "Int" -> ToDecimalText(v.i)
    [] v.t = "Boolean" -> (IF v.b THEN TrueText ELSE FalseText)
    [] v.t = "Tuple" -> <<40>> \o DisplayElems(v.k, 1) \o <<41>>
    [] OTHER -> <<40, 41>>
StrFrom(v) == IF v.t = "String" THEN v.s ELSE DisplayValue(v)

\* ---- helpers
IsScalar(v) == v.t \in {"String", "Int", "Float", "Boolean"}
Contains(tuple, x) == \E j \in 1..Len(tuple) : ValEq(tuple[j], x)
Args(arg) == IF arg.t = "Tuple" THEN arg.k ELSE <<arg>>              \* "one or more arguments"
RECURSIVE FirstNonNumber(_, _)
FirstNonNumber(k, i) == IF i > Len(k) THEN 0 ELSE IF ~IsNumber(k[i]) THEN i ELSE FirstNonNumber(k, i + 1)
HasNaN(k) == \E j \in 1..Len(k) : k[j].t = "Float" /\ IsNaN(k[j].f)

\* numerical order of two numbers after conversion to double (the crate's reading) and exactly
NumCmpConv(x, y) == FCmp(AsNumber(x), AsNumber(y))
NumCmpExact(x, y) ==
  CASE x.t = "Int" /\ y.t = "Int" -> Cmp(x.i, y.i)
    [] x.t = "Float" /\ y.t = "Float" -> FCmp(x.f, y.f)
    [] x.t = "Int" -> IntVsFloatExact(x.i, y.f)
    [] OTHER -> -IntVsFloatExact(y.i, x.f)

\* the crate's fold: integer extreme (exact), float extreme, the integer wins only if strictly better after conversion
RECURSIVE FoldInts(_, _, _, _), FoldFloats(_, _, _, _)
FoldInts(k, i, best, wantMin) ==
  IF i > Len(k) THEN best
  ELSE IF k[i].t # "Int" THEN FoldInts(k, i + 1, best, wantMin)
  ELSE IF best.t = "Empty" THEN FoldInts(k, i + 1, k[i], wantMin)
  ELSE LET c == Cmp(k[i].i, best.i) IN
       FoldInts(k, i + 1, IF (wantMin /\ c < 0) \/ (~wantMin /\ c > 0) THEN k[i] ELSE best, wantMin)
FoldFloats(k, i, best, wantMin) ==
  IF i > Len(k) THEN best
  ELSE IF k[i].t # "Float" THEN FoldFloats(k, i + 1, best, wantMin)
  ELSE IF best.t = "Empty" THEN FoldFloats(k, i + 1, k[i], wantMin)
  ELSE LET c == FCmp(k[i].f, best.f) IN
       FoldFloats(k, i + 1, IF (wantMin /\ c < 0) \/ (~wantMin /\ c > 0) THEN k[i] ELSE best, wantMin)
MinMaxFold(k, wantMin) ==         \* requires: all numbers, no NaN, non-empty
  LET bi == FoldInts(k, 1, VEmpty, wantMin)
      bf == FoldFloats(k, 1, VEmpty, wantMin)
  IN IF bf.t = "Empty" THEN bi
     ELSE IF bi.t = "Empty" THEN bf
     ELSE LET c == FCmp(IntToFloat(bi.i), bf.f) IN
          IF (wantMin /\ c < 0) \/ (~wantMin /\ c > 0) THEN bi ELSE bf
\* the documentation: an argument that is numerically smallest / largest, keeping its type
Extremes(k, wantMin, CmpOp(_, _)) ==
  {k[j] : j \in {j \in 1..Len(k) : \A m \in 1..Len(k) :
                   IF wantMin THEN CmpOp(k[j], k[m]) <= 0 ELSE CmpOp(k[j], k[m]) >= 0}}

PVal(v) == [p |-> "val", v |-> v]
PErr == [p |-> "err", v |-> VEmpty]
PAny == [p |-> "any", v |-> VEmpty]

Small(i) == IsSmall(i)
\* shift amount as a TLC integer if it is in 0..63, else -1
ShiftAmount(i) == IF Sign(i) = 0 /\ IsSmall(i) /\ ToSmall(i) <= 63 THEN ToSmall(i) ELSE -1
\* the crate wraps the amount (wrapping_shl): the low six bits of the two's-complement amount
WrappedAmount(i) == LET b == ToBits(i) IN b[1] + 2 * b[2] + 4 * b[3] + 8 * b[4] + 16 * b[5] + 32 * b[6]

(***************************************************************************)
(* Deterministic semantics.                                                *)
(***************************************************************************)
Tuple2(arg) == arg.t = "Tuple" /\ Len(arg.k) = 2
TupleErr(arg, n) == IF arg.t # "Tuple" THEN Er(ExpectedTuple(arg)) ELSE Er(ExpectedFixedLengthTuple(n, arg))

ApplyBuiltin(id, arg) ==
  CASE id \in UnaryMath ->
         IF IsNumber(arg) THEN Ok(VFloat(Prim1(PrimOf(id), AsNumber(arg)))) ELSE Er(ExpectedNumber(arg))
    [] id \in BinaryMath ->
         IF ~Tuple2(arg) THEN TupleErr(arg, 2)
         ELSE IF ~IsNumber(arg.k[1]) THEN Er(ExpectedNumber(arg.k[1]))
         ELSE IF ~IsNumber(arg.k[2]) THEN Er(ExpectedNumber(arg.k[2]))
         ELSE Ok(VFloat(Prim2(PrimOf(id), AsNumber(arg.k[1]), AsNumber(arg.k[2]))))
    [] id \in FloatTests ->
         IF ~IsNumber(arg) THEN Er(ExpectedNumber(arg))
         ELSE LET x == AsNumber(arg) IN
              Ok(VBool(CASE id = "math::is_nan" -> IsNaN(x) [] id = "math::is_finite" -> IsFinite(x)
                         [] id = "math::is_infinite" -> IsInf(x) [] OTHER -> IsNormal(x)))
    [] id = "math::abs" ->
         IF arg.t = "Float" THEN Ok(VFloat(FAbs(arg.f)))
         ELSE IF arg.t = "Int" THEN (LET r == Abs(arg.i) IN IF r.ok THEN Ok(VInt(r.v)) ELSE Er(ErrA("NegationError", arg)))
         ELSE Er(ExpectedNumber(arg))
    [] id = "typeof" -> Ok(VStr(TypeNameLower(arg)))
    [] id \in {"min", "max"} ->
         LET k == Args(arg)  bad == FirstNonNumber(Args(arg), 1) IN
         IF bad # 0 THEN Er(ExpectedNumber(k[bad]))
         ELSE IF Len(k) = 0 THEN Er(ErrXY("WrongFunctionArgumentAmount", 1, 0))
         ELSE IF HasNaN(k) THEN Ok(VFloat(QNaN))                     \* undocumented: placeholder, never compared
         ELSE Ok(MinMaxFold(k, id = "min"))
    [] id = "if" ->
         IF ~(arg.t = "Tuple" /\ Len(arg.k) = 3) THEN TupleErr(arg, 3)
         ELSE IF arg.k[1].t # "Boolean" THEN Er(ExpectedBoolean(arg.k[1]))
         ELSE Ok(IF arg.k[1].b THEN arg.k[2] ELSE arg.k[3])
    [] id = "contains" ->
         IF ~Tuple2(arg) THEN TupleErr(arg, 2)
         ELSE IF arg.k[1].t # "Tuple" THEN Er(ExpectedTuple(arg.k[1]))
         ELSE IF ~IsScalar(arg.k[2]) THEN Er(TypeError(arg.k[2], <<"String", "Int", "Float", "Boolean">>))
         ELSE Ok(VBool(Contains(arg.k[1].k, arg.k[2])))
    [] id = "contains_any" ->
         IF ~Tuple2(arg) THEN TupleErr(arg, 2)
         ELSE IF arg.k[1].t # "Tuple" THEN Er(ExpectedTuple(arg.k[1]))
         ELSE IF arg.k[2].t # "Tuple" THEN Er(ExpectedTuple(arg.k[2]))
         ELSE LET hay == arg.k[1].k  ns == arg.k[2].k
                  bad == {j \in 1..Len(ns) : ~IsScalar(ns[j])} IN
              IF bad # {} THEN Er(TypeError(ns[CHOOSE j \in bad : \A m \in bad : j <= m], <<"String", "Int", "Float", "Boolean">>))
              ELSE Ok(VBool(\E j \in 1..Len(ns) : Contains(hay, ns[j])))
    [] id = "len" ->
         IF arg.t = "String" THEN Ok(VNat(StrLen(arg.s)))
         ELSE IF arg.t = "Tuple" THEN Ok(VNat(Len(arg.k)))
         ELSE Er(TypeError(arg, <<"String", "Tuple">>))
    [] id = "str::to_lowercase" ->
         IF arg.t # "String" THEN Er(ExpectedString(arg))
         ELSE Ok(VStr(IF IsAscii(arg.s) THEN AsciiLower(arg.s) ELSE Prim1("lower", arg.s)))
    [] id = "str::to_uppercase" ->
         IF arg.t # "String" THEN Er(ExpectedString(arg))
         ELSE Ok(VStr(IF IsAscii(arg.s) THEN AsciiUpper(arg.s) ELSE Prim1("upper", arg.s)))
    [] id = "str::trim" -> IF arg.t # "String" THEN Er(ExpectedString(arg)) ELSE Ok(VStr(Trim(arg.s)))
    [] id = "str::from" -> Ok(VStr(StrFrom(arg)))
    [] id = "str::substring" ->
         IF arg.t # "Tuple" THEN Er(ExpectedTuple(arg))
         ELSE IF Len(arg.k) \notin {2, 3} THEN Er(ExpectedRangedLengthTuple(2, 3, arg))
         ELSE IF arg.k[1].t # "String" THEN Er(ExpectedString(arg.k[1]))
         ELSE IF arg.k[2].t # "Int" THEN Er(ExpectedInt(arg.k[2]))
         ELSE IF Sign(arg.k[2].i) = 1 THEN Er(OutOfBoundsAccess)
         ELSE IF Len(arg.k) = 3 /\ arg.k[3].t # "Int" THEN Er(ExpectedInt(arg.k[3]))
         ELSE IF Len(arg.k) = 3 /\ Sign(arg.k[3].i) = 1 THEN Er(OutOfBoundsAccess)
         ELSE LET s == arg.k[1].s
                  n == StrLen(s)
                  \* indices beyond 2^31 are certainly beyond the end of any string of the model
                  st == IF Small(arg.k[2].i) THEN ToSmall(arg.k[2].i) ELSE n + 1
                  en == IF Len(arg.k) = 2 THEN n ELSE IF Small(arg.k[3].i) THEN ToSmall(arg.k[3].i) ELSE n + 1
              IN IF st > en \/ en > n THEN Er(OutOfBoundsAccess)
                 ELSE LET r == StrSlice(s, st, en) IN IF r.ok THEN Ok(VStr(r.s)) ELSE Er(OutOfBoundsAccess)
    [] id \in {"bitand", "bitor", "bitxor", "shl", "shr"} ->
         IF ~Tuple2(arg) THEN TupleErr(arg, 2)
         ELSE IF arg.k[1].t # "Int" THEN Er(ExpectedInt(arg.k[1]))
         ELSE IF arg.k[2].t # "Int" THEN Er(ExpectedInt(arg.k[2]))
         ELSE LET x == arg.k[1].i  y == arg.k[2].i IN
              Ok(VInt(CASE id = "bitand" -> BitAnd(x, y) [] id = "bitor" -> BitOr(x, y) [] id = "bitxor" -> BitXor(x, y)
                        [] id = "shl" -> Shl(x, WrappedAmount(y)) [] OTHER -> Shr(x, WrappedAmount(y))))
    [] id = "bitnot" -> IF arg.t # "Int" THEN Er(ExpectedInt(arg)) ELSE Ok(VInt(BitNot(arg.i)))

(***************************************************************************)
(* What the documentation allows (a set of outcome patterns).              *)
(***************************************************************************)
PatternOf(r) == IF r.ok THEN PVal(r.v) ELSE PErr
BuiltinAllowed(id, arg) ==
  CASE id \in {"min", "max"} ->
         LET k == Args(arg) IN
         IF FirstNonNumber(k, 1) # 0 \/ Len(k) = 0 THEN {PErr}
         ELSE IF HasNaN(k) THEN {PAny}                                \* not claimed
         ELSE {PVal(v) : v \in Extremes(k, id = "min", NumCmpExact) \cup Extremes(k, id = "min", NumCmpConv)}
    [] id \in {"shl", "shr"} ->
         IF Tuple2(arg) /\ arg.k[1].t = "Int" /\ arg.k[2].t = "Int" /\ ShiftAmount(arg.k[2].i) < 0
         THEN {PAny}                                                  \* amounts outside 0..63: not claimed
         ELSE {PatternOf(ApplyBuiltin(id, arg))}
    [] id = "contains" ->
         \* README: "Tuple, any non-tuple"; the crate rejects an empty-valued needle: either reading
         IF Tuple2(arg) /\ arg.k[1].t = "Tuple" /\ arg.k[2].t = "Empty"
         THEN {PErr, PVal(VBool(Contains(arg.k[1].k, arg.k[2])))}
         ELSE {PatternOf(ApplyBuiltin(id, arg))}
    [] id = "contains_any" ->
         IF Tuple2(arg) /\ arg.k[1].t = "Tuple" /\ arg.k[2].t = "Tuple"
            /\ (\E j \in 1..Len(arg.k[2].k) : arg.k[2].k[j].t = "Empty")
            /\ (\A j \in 1..Len(arg.k[2].k) : arg.k[2].k[j].t # "Tuple")
         THEN {PErr, PVal(VBool(\E j \in 1..Len(arg.k[2].k) : Contains(arg.k[1].k, arg.k[2].k[j])))}
         ELSE {PatternOf(ApplyBuiltin(id, arg))}
    [] OTHER -> {PatternOf(ApplyBuiltin(id, arg))}
=============================================================================
