-------------------------------- MODULE Conc --------------------------------
(***************************************************************************)
(* C15, behavioural half: any number of threads evaluating shared          *)
(* precompiled expressions against one shared context obtain exactly the   *)
(* results of sequential evaluation.                                       *)
(*                                                                         *)
(* Reader threads hold a shared reference for the duration of an           *)
(* evaluation (Start ... Finish are separate steps, so TLC explores every  *)
(* interleaving of the readers); the owner may mutate the context only     *)
(* while no reader is active (Rust's `&mut` exclusivity), which is the one *)
(* assumption of the model.  Evaluation through a shared reference is      *)
(* Eval in mode "imm" - a function of (program, context), with no other    *)
(* state: that is the design statement a cache with interior mutability    *)
(* or a global would break.                                                *)
(* The conformance side runs real threads on real `Arc<Node>` /            *)
(* `Arc<HashMapContext>` values and validates every distinct               *)
(* (program, entry point, result) with Trace_Api.tla.                      *)
(***************************************************************************)
EXTENDS Api
CONSTANTS NThreads, MaxEvals, MaxWrites
VARIABLES ctx, pc, cur, seen, done, evals, writes

Threads == 1..NThreads
NX == <<120>>
NFn == <<102>>
C1 == NConst(VNat(1), <<49>>)
Programs == {NOp("Add", <<NLeaf("Read", NX), C1>>),                                  \* x + 1
             N("Call", NFn, VEmpty, <<NLeaf("Read", NX)>>),                          \* f(x)
             NOp("Assign", <<NLeaf("Write", NX), C1>>)}                              \* x = 1 (rejected: context not mutable)
Ctx0 == HashMapCtx((NX :> VNat(1)), (NFn :> BehId), FALSE)

Init == /\ ctx = Ctx0
        /\ pc = [t \in Threads |-> "idle"] /\ cur = [t \in Threads |-> C1]
        /\ seen = [t \in Threads |-> Ctx0] /\ done = {} /\ evals = [t \in Threads |-> 0] /\ writes = 0

Start(t) == /\ pc[t] = "idle" /\ evals[t] < MaxEvals
            /\ \E p \in Programs : cur' = [cur EXCEPT ![t] = p]
            /\ pc' = [pc EXCEPT ![t] = "reading"] /\ seen' = [seen EXCEPT ![t] = ctx]
            /\ evals' = [evals EXCEPT ![t] = @ + 1]
            /\ UNCHANGED <<ctx, done, writes>>
Finish(t) == /\ pc[t] = "reading"
             /\ LET r == Eval(cur[t], St(ctx, <<>>), "imm") IN
                done' = done \cup {[t |-> t, p |-> cur[t], c |-> seen[t], r |-> r.r]}
             /\ pc' = [pc EXCEPT ![t] = "idle"]
             /\ UNCHANGED <<ctx, cur, seen, evals, writes>>
Write == /\ \A t \in Threads : pc[t] = "idle"                        \* exclusive access
         /\ writes < MaxWrites
         /\ \E v \in {VNat(2), VNat(3)} : ctx' = SetValue(ctx, NX, v).ctx
         /\ writes' = writes + 1
         /\ UNCHANGED <<pc, cur, seen, done, evals>>
Next == (\E t \in Threads : Start(t) \/ Finish(t)) \/ Write

\* every concurrent result is the sequential result for the context the reader started with
SequentialResults == \A d \in done : d.r = Eval(d.p, St(d.c, <<>>), "imm").r
\* readers never observe a change of the context, and never cause one
StableWhileReading == \A t \in Threads : pc[t] = "reading" => ctx = seen[t]
ReadersDoNotMutate == [][(\E t \in Threads : pc[t] = "reading" /\ pc'[t] = "idle") => ctx' = ctx]_<<ctx, pc>>
=============================================================================
