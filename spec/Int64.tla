------------------------------- MODULE Int64 -------------------------------
(***************************************************************************)
(* Signed 64-bit integers for a model checker whose own integers have 32   *)
(* bits.  A number is the tuple <<sign, l1, l2, l3, l4, l5>>: sign is 0    *)
(* (non-negative) or 1 (negative) and l1..l5 are the magnitude in base     *)
(* 2^15, least significant limb first.  Zero always has sign 0.  Five      *)
(* limbs hold 75 bits, so every intermediate magnitude below 2^64 is exact *)
(* and "does it fit into an i64" is an explicit, separate test (InRange).  *)
(*                                                                         *)
(* evalexpr's default integer type is i64 with checked arithmetic          *)
(* (src/value/numeric_types/default_numeric_types.rs): every operation     *)
(* below returns [ok, v]; ok = FALSE is the arithmetic-error outcome.      *)
(* MC_Int64.tla cross-checks every operator against TLC's native           *)
(* arithmetic on small operands and algebraic laws on the edge pool.       *)
(***************************************************************************)
EXTENDS Integers, Sequences

B == 32768                       \* limb base 2^15
Pow2 == <<1, 2, 4, 8, 16, 32, 64, 128, 256, 512, 1024, 2048, 4096, 8192, 16384>>
MagZero == <<0, 0, 0, 0, 0>>
Zero == <<0, 0, 0, 0, 0, 0>>
Mag(a) == <<a[2], a[3], a[4], a[5], a[6]>>
Sign(a) == a[1]
Mk(s, m) == IF m = MagZero THEN Zero ELSE <<s, m[1], m[2], m[3], m[4], m[5]>>
IsInt64Shape(a) == /\ Len(a) = 6 /\ a[1] \in {0, 1}
                   /\ \A i \in 2..6 : a[i] \in 0..(B - 1)
                   /\ (Mag(a) = MagZero => a[1] = 0)

(***************************************************************************)
(* Magnitudes                                                              *)
(***************************************************************************)
RECURSIVE MagCmpAt(_, _, _)
MagCmpAt(m, n, i) == IF i = 0 THEN 0
                     ELSE IF m[i] < n[i] THEN -1
                     ELSE IF m[i] > n[i] THEN 1
                     ELSE MagCmpAt(m, n, i - 1)
MagCmp(m, n) == MagCmpAt(m, n, 5)

RECURSIVE MagAddAt(_, _, _, _, _)
MagAddAt(m, n, i, c, acc) ==
  IF i > 5 THEN [m |-> acc, c |-> c]
  ELSE LET s == m[i] + n[i] + c IN MagAddAt(m, n, i + 1, s \div B, Append(acc, s % B))
MagAdd(m, n) == MagAddAt(m, n, 1, 0, <<>>)          \* [m: 5 limbs, c: carry out]

\* requires m >= n
RECURSIVE MagSubAt(_, _, _, _, _)
MagSubAt(m, n, i, bw, acc) ==
  IF i > 5 THEN acc
  ELSE LET d == m[i] - n[i] - bw IN
       IF d < 0 THEN MagSubAt(m, n, i + 1, 1, Append(acc, d + B))
       ELSE MagSubAt(m, n, i + 1, 0, Append(acc, d))
MagSub(m, n) == MagSubAt(m, n, 1, 0, <<>>)

\* magnitude times a small number (k < 2^15) plus a small addend: [m, c]
RECURSIVE MagMulSmallAt(_, _, _, _, _)
MagMulSmallAt(m, k, i, c, acc) ==
  IF i > 5 THEN [m |-> acc, c |-> c]
  ELSE LET t == m[i] * k + c IN MagMulSmallAt(m, k, i + 1, t \div B, Append(acc, t % B))
MagMulSmall(m, k, add) == MagMulSmallAt(m, k, 1, add, <<>>)

\* magnitude divided by a small number (0 < k < 2^15): [q, r]
RECURSIVE MagDivSmallAt(_, _, _, _, _)
MagDivSmallAt(m, k, i, r, acc) ==
  IF i = 0 THEN [q |-> acc, r |-> r]
  ELSE LET t == r * B + m[i] IN
       MagDivSmallAt(m, k, i - 1, t % k, [acc EXCEPT ![i] = t \div k])
MagDivSmall(m, k) == MagDivSmallAt(m, k, 5, 0, MagZero)

\* schoolbook product: ten limbs; every partial sum stays below 2^30
RECURSIVE MagMulAt(_, _, _, _, _, _)
MagMulAt(m, n, i, j, c, r) ==
  IF i > 5 THEN r
  ELSE IF j > 5 THEN MagMulAt(m, n, i + 1, 1, 0, [r EXCEPT ![i + 5] = c])
  ELSE LET t == r[i + j - 1] + m[i] * n[j] + c IN
       MagMulAt(m, n, i, j + 1, t \div B, [r EXCEPT ![i + j - 1] = t % B])
MagMul(m, n) == MagMulAt(m, n, 1, 1, 0, <<0, 0, 0, 0, 0, 0, 0, 0, 0, 0>>)

MagBit(m, k) == (m[(k \div 15) + 1] \div Pow2[(k % 15) + 1]) % 2       \* bit k, k in 0..74

\* shift-and-subtract division over 64 bits: [q, r]; requires n # 0, m < 2^64
RECURSIVE MagDivModAt(_, _, _, _, _)
MagDivModAt(m, n, k, q, r) ==
  IF k < 0 THEN [q |-> q, r |-> r]
  ELSE LET r2 == MagMulSmall(r, 2, MagBit(m, k)).m IN
       IF MagCmp(r2, n) >= 0
       THEN MagDivModAt(m, n, k - 1,
                        [q EXCEPT ![(k \div 15) + 1] = @ + Pow2[(k % 15) + 1]], MagSub(r2, n))
       ELSE MagDivModAt(m, n, k - 1, q, r2)
MagDivMod(m, n) == MagDivModAt(m, n, 63, MagZero, MagZero)

Two63 == <<0, 0, 0, 0, 8>>        \* 2^63 = 8 * 2^60
InRange(s, m) == LET c == MagCmp(m, Two63) IN IF s = 0 THEN c < 0 ELSE c <= 0

(***************************************************************************)
(* Signed numbers.  Raw results may lie outside the i64 range; Chk wraps   *)
(* them into the checked outcome.                                          *)
(***************************************************************************)
Chk(a) == [ok |-> InRange(Sign(a), Mag(a)), v |-> a]
Fail == [ok |-> FALSE, v |-> Zero]

NegRaw(a) == Mk(1 - Sign(a), Mag(a))
AddRaw(a, b) ==
  IF Sign(a) = Sign(b) THEN Mk(Sign(a), MagAdd(Mag(a), Mag(b)).m)
  ELSE LET c == MagCmp(Mag(a), Mag(b)) IN
       IF c = 0 THEN Zero
       ELSE IF c > 0 THEN Mk(Sign(a), MagSub(Mag(a), Mag(b)))
       ELSE Mk(Sign(b), MagSub(Mag(b), Mag(a)))

Cmp(a, b) ==                       \* -1, 0, 1
  IF Sign(a) # Sign(b) THEN (IF Sign(a) = 1 THEN -1 ELSE 1)
  ELSE IF Sign(a) = 0 THEN MagCmp(Mag(a), Mag(b)) ELSE MagCmp(Mag(b), Mag(a))

Add(a, b) == Chk(AddRaw(a, b))
Sub(a, b) == Chk(AddRaw(a, NegRaw(b)))
Neg(a) == Chk(NegRaw(a))
Abs(a) == Chk(Mk(0, Mag(a)))
Mul(a, b) ==
  LET p == MagMul(Mag(a), Mag(b))
      lo == <<p[1], p[2], p[3], p[4], p[5]>>
      s == IF Sign(a) = Sign(b) THEN 0 ELSE 1
  IN IF <<p[6], p[7], p[8], p[9], p[10]>> # MagZero THEN Fail ELSE Chk(Mk(s, lo))
\* truncating division; the remainder takes the sign of the dividend
Div(a, b) ==
  IF b = Zero THEN Fail
  ELSE Chk(Mk(IF Sign(a) = Sign(b) THEN 0 ELSE 1, MagDivMod(Mag(a), Mag(b)).q))
RemExact(a, b) ==
  IF b = Zero THEN Fail ELSE Chk(Mk(Sign(a), MagDivMod(Mag(a), Mag(b)).r))

MinInt == <<1, 0, 0, 0, 0, 8>>
MaxInt == <<0, 32767, 32767, 32767, 32767, 7>>
MinusOne == <<1, 1, 0, 0, 0, 0>>

FromNat(n) == Mk(0, <<n % B, (n \div B) % B, n \div (B * B), 0, 0>>)    \* 0 <= n < 2^31
FromInt(n) == IF n < 0 THEN NegRaw(FromNat(-n)) ELSE FromNat(n)
IsSmall(a) == a[5] = 0 /\ a[6] = 0 /\ a[4] < 2                          \* |a| < 2^31
ToSmall(a) == LET v == a[2] + B * a[3] + B * B * a[4] IN IF Sign(a) = 1 THEN -v ELSE v

(***************************************************************************)
(* Two's-complement view: 64 bits, least significant first (index 1).      *)
(***************************************************************************)
MagToBits(m) == [k \in 1..64 |-> MagBit(m, k - 1)]
BitsToMag(bits) ==
  [i \in 1..5 |->
     LET RECURSIVE Acc(_, _)
         Acc(j, s) == IF j > 14 \/ 15 * (i - 1) + j + 1 > 64 THEN s
                      ELSE Acc(j + 1, s + bits[15 * (i - 1) + j + 1] * Pow2[j + 1])
     IN Acc(0, 0)]
RECURSIVE BitsIncAt(_, _, _)
BitsIncAt(bits, k, c) ==                    \* add the carry c at position k
  IF k > 64 \/ c = 0 THEN bits
  ELSE IF bits[k] = 0 THEN [bits EXCEPT ![k] = 1]
  ELSE BitsIncAt([bits EXCEPT ![k] = 0], k + 1, 1)
BitsNeg(bits) == BitsIncAt([k \in 1..64 |-> 1 - bits[k]], 1, 1)
ToBits(a) == IF Sign(a) = 0 THEN MagToBits(Mag(a)) ELSE BitsNeg(MagToBits(Mag(a)))
FromBits(bits) == IF bits[64] = 0 THEN Mk(0, BitsToMag(bits)) ELSE Mk(1, BitsToMag(BitsNeg(bits)))

BitAnd(a, b) == LET x == ToBits(a)  y == ToBits(b) IN FromBits([k \in 1..64 |-> x[k] * y[k]])
BitOr(a, b)  == LET x == ToBits(a)  y == ToBits(b) IN FromBits([k \in 1..64 |-> IF x[k] + y[k] > 0 THEN 1 ELSE 0])
BitXor(a, b) == LET x == ToBits(a)  y == ToBits(b) IN FromBits([k \in 1..64 |-> (x[k] + y[k]) % 2])
BitNot(a)    == LET x == ToBits(a) IN FromBits([k \in 1..64 |-> 1 - x[k]])
\* shifts by n in 0..63 (n is a TLC integer)
Shl(a, n) == LET x == ToBits(a) IN FromBits([k \in 1..64 |-> IF k > n THEN x[k - n] ELSE 0])
Shr(a, n) == LET x == ToBits(a) IN FromBits([k \in 1..64 |-> IF k + n <= 64 THEN x[k + n] ELSE x[64]])

(***************************************************************************)
(* Digits.  FromDigits folds most-significant-first digit values in the    *)
(* given radix (10 or 16) and reports overflow of the i64 range (sticky).  *)
(***************************************************************************)
RECURSIVE FromDigitsAt(_, _, _, _, _)
FromDigitsAt(ds, radix, i, m, ovf) ==
  IF i > Len(ds) THEN [ok |-> ~ovf /\ InRange(0, m), v |-> Mk(0, m)]
  ELSE LET r == MagMulSmall(m, radix, ds[i]) IN
       FromDigitsAt(ds, radix, i + 1, r.m, ovf \/ r.c # 0)
FromDigits(ds, radix) == FromDigitsAt(ds, radix, 1, MagZero, FALSE)

RECURSIVE MagToDigits(_, _)
MagToDigits(m, acc) ==                         \* decimal digit values, most significant first
  IF m = MagZero THEN (IF acc = <<>> THEN <<0>> ELSE acc)
  ELSE LET d == MagDivSmall(m, 10) IN MagToDigits(d.q, <<d.r>> \o acc)
\* the characters of Rust's Display for i64 (code points)
ToDecimalText(a) ==
  LET ds == MagToDigits(Mag(a), <<>>)
      txt == [i \in 1..Len(ds) |-> 48 + ds[i]]
  IN IF Sign(a) = 1 THEN <<45>> \o txt ELSE txt
=============================================================================
