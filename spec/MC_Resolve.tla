----------------------------- MODULE MC_Resolve -----------------------------
(***************************************************************************)
(* C09: the complete resolution matrix.                                    *)
(*   name     the 49 builtin names and two other names                     *)
(*   context  EmptyContext, EmptyContextWithBuiltinFunctions,              *)
(*            HashMapContext with builtins enabled / disabled              *)
(*   user function named `name`: absent, or one of four behaviours         *)
(*   variable named `name`: absent / bound (separate namespaces)           *)
(*   call form  n(2)  n 2  n "s"  n true  n()  n(2, 3)  n(true, 2, 3)       *)
(*              w n 2   (w is a                                             *)
(*              recording wrapper)                                         *)
(* The expected outcome is Eval's: the user function (called once, with    *)
(* exactly this argument), else the builtin if enabled, else               *)
(* FunctionIdentifierNotFound(name).                                       *)
(***************************************************************************)
EXTENDS Api
VARIABLES name, cfg, lvl

NW == <<119>>
Other1 == <<113, 113>>
Other2 == <<109, 97, 116, 104, 58, 58, 110, 111, 112, 101>>            \* "math::nope"
\* near misses of builtin names: a namespace prefix dropped or added, a wrong namespace, another letter case, a proper prefix -
\* none of them is a builtin ("sqrt", "math::floor", "str::len", "to_uppercase", "Max", "math::", "math::sqr")
NearMisses == {<<115, 113, 114, 116>>, <<109, 97, 116, 104, 58, 58, 102, 108, 111, 111, 114>>, <<115, 116, 114, 58, 58, 108, 101, 110>>,
               <<116, 111, 95, 117, 112, 112, 101, 114, 99, 97, 115, 101>>, <<77, 97, 120>>, <<109, 97, 116, 104, 58, 58>>,
               <<109, 97, 116, 104, 58, 58, 115, 113, 114>>}
AllNames == DOMAIN BuiltinId \cup {Other1, Other2} \cup NearMisses
Behaviours == {BehId, BehConst(VNat(7)), BehFail, BehNotFound}
Cfg(kind, nb, uf, hasVar) == [kind |-> kind, nb |-> nb, uf |-> uf, var |-> hasVar]
NoFn == Beh("none", VEmpty)
Configs == {Cfg("Empty", TRUE, NoFn, FALSE), Cfg("EmptyBuiltin", FALSE, NoFn, FALSE)}
           \cup {Cfg("HashMap", nb, uf, hv) : nb \in BOOLEAN, uf \in Behaviours \cup {NoFn}, hv \in BOOLEAN}
Forms == {"paren", "juxta", "juxtastr", "juxtabool", "unit", "pair", "triple", "nested"}

Init == lvl = 1 /\ name \in AllNames /\ cfg = Cfg("Empty", TRUE, NoFn, FALSE)
Next == lvl = 1 /\ lvl' = 2 /\ name' = name /\ cfg' \in Configs

CtxOf(c, n) ==
  IF c.kind = "Empty" THEN EmptyCtx ELSE IF c.kind = "EmptyBuiltin" THEN EmptyBuiltinCtx
  ELSE HashMapCtx(IF c.var THEN (n :> VNat(5)) ELSE EmptyMap,
                  (NW :> BehId) @@ (IF c.uf.b = "none" THEN EmptyMap ELSE (n :> c.uf)), c.nb)
L2 == TLit(VNat(2), <<50>>)
L3 == TLit(VNat(3), <<51>>)
ToksOf(form, n) ==
  CASE form = "paren" -> <<TId(n), TOp("("), L2, TOp(")")>>
    [] form = "juxta" -> <<TId(n), L2>>
    [] form = "juxtastr" -> <<TId(n), TLit(VStr(<<115>>), <<34, 115, 34>>)>>
    [] form = "juxtabool" -> <<TId(n), TLit(VBool(TRUE), TrueText)>>
    [] form = "unit" -> <<TId(n), TOp("("), TOp(")")>>
    [] form = "pair" -> <<TId(n), TOp("("), L2, TOp(","), L3, TOp(")")>>
    [] form = "triple" -> <<TId(n), TOp("("), TLit(VBool(TRUE), TrueText), TOp(","), L2, TOp(","), L3, TOp(")")>>
    [] form = "nested" -> <<TId(NW), TId(n), L2>>
ArgOf(form) == CASE form = "unit" -> VEmpty [] form = "pair" -> VTuple(<<VNat(2), VNat(3)>>)
                [] form = "triple" -> VTuple(<<VBool(TRUE), VNat(2), VNat(3)>>) [] form = "juxtastr" -> VStr(<<115>>)
                [] form = "juxtabool" -> VBool(TRUE) [] OTHER -> VNat(2)

Run(form, c) == Core("imm", BuildToks(ToksOf(form, name)).tree, St(CtxOf(c, name), <<>>))
Case(form) ==
  LET c == CtxOf(cfg, name)
      r == Run(form, cfg) IN
  [kind |-> "eval", check |-> "resolve", toks |-> TokTexts(ToksOf(form, name)), ctx |-> CtxJson(c), level |-> "string",
   ek |-> "value", mode |-> "imm", allowed |-> {JPat(PatOf(r.r))},
   exact |-> (r.r.ok \/ r.r.e.e = "FunctionIdentifierNotFound"), det |-> TRUE, post |-> CtxJson(c), log |-> JLog(r.st.log),
   \* a user function whose own result is FunctionIdentifierNotFound: see KNOWN_FINDINGS.txt (KF-2)
   fk |-> IF cfg.uf.b = "nf" THEN "user_function_returns_FunctionIdentifierNotFound" ELSE "none"]
Emit == lvl = 2 => \A form \in Forms : PrintT(ToJson(Case(form)))

SpecTheorems ==
  lvl = 2 =>
    \A form \in Forms :
      LET r == Run(form, cfg) IN
      /\ BuildToks(ToksOf(form, name)).class = "WF"
      \* variables never influence resolution
      /\ Run(form, [cfg EXCEPT !.var = ~cfg.var]).r = r.r
      \* a function of the context always wins and is called exactly once with exactly the argument of the call form
      /\ (cfg.uf.b # "none" =>
            /\ [n |-> name, a |-> ArgOf(form)] \in {r.st.log[i] : i \in 1..Len(r.st.log)}
            /\ Len(r.st.log) = (IF form = "nested" /\ r.r.ok THEN 2 ELSE IF form = "nested" /\ cfg.uf.b \in {"fail", "nf"} THEN 1 ELSE 1)
            /\ (form # "nested" => r.r = RunBehaviour(cfg.uf, ArgOf(form))))
      \* without one, a builtin name resolves iff builtins are enabled; any other name never resolves
      /\ (cfg.uf.b = "none" /\ form # "nested" =>
            IF IsBuiltinName(name) /\ ~CtxOf(cfg, name).nb THEN r.r = ApplyBuiltin(BuiltinId[name], ArgOf(form))
            ELSE r.r = Er(FunctionIdentifierNotFound(name)))
=============================================================================
