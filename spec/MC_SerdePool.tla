---------------------------- MODULE MC_SerdePool ----------------------------
(***************************************************************************)
(* C16, value half: every pool value (boundary values of all six types,    *)
(* nested tuples), bound to a variable of a context with a user function   *)
(* and either switch position.  The specification's SerdeProjection keeps  *)
(* variables and switch and drops functions; the harness serialises and    *)
(* deserialises the real context and compares bit-exactly.                 *)
(***************************************************************************)
EXTENDS Api, Pools
VARIABLES v, nb
Init == v \in Pool /\ nb \in BOOLEAN
Next == UNCHANGED <<v, nb>>
NA == <<97>>
NFn == <<102>>
\* two more variables whose names a normalising (de)serialiser would merge with `a`: "A" and "a " (trailing blank)
Before == HashMapCtx((NA :> v) @@ (<<65>> :> VNat(3)) @@ (<<97, 32>> :> VBool(TRUE)), (NFn :> BehId), nb)
After == SerdeProjection(Before)
Emit == PrintT(ToJson([kind |-> "serde_value", v |-> JVal(v), nb |-> nb, post |-> CtxJson(After)]))
SpecTheorems == After.vars = Before.vars /\ After.nb = Before.nb /\ DOMAIN After.funcs = {}
=============================================================================
