------------------------------ MODULE MC_Int64 ------------------------------
(***************************************************************************)
(* Model-checks Int64.tla itself: (1) every operator agrees with TLC's     *)
(* native arithmetic on all small operand pairs, (2) algebraic laws hold   *)
(* on the 64-bit edge pool, where native arithmetic cannot follow.         *)
(***************************************************************************)
EXTENDS Int64, TLC
CONSTANTS SmallN
VARIABLES a, b, mode

Pow2I(k) == Mk(0, [i \in 1..5 |-> IF i = (k \div 15) + 1 THEN Pow2[(k % 15) + 1] ELSE 0])      \* 2^k, k < 75
P(x, d) == AddRaw(x, FromInt(d))
EdgePool ==
  {MinInt, P(MinInt, 1), P(MinInt, 2), MaxInt, P(MaxInt, -1), P(MaxInt, -2),
   Zero, FromInt(1), FromInt(-1), FromInt(2), FromInt(-2), FromInt(3), FromInt(-3), FromInt(7), FromInt(10), FromInt(-10),
   Pow2I(15), P(Pow2I(15), -1), Pow2I(30), P(Pow2I(30), 1), Pow2I(31), NegRaw(Pow2I(31)), P(Pow2I(31), -1),
   Pow2I(32), P(Pow2I(32), -1), NegRaw(Pow2I(32)), Pow2I(45), Pow2I(53), P(Pow2I(53), 1), P(Pow2I(53), -1),
   NegRaw(Pow2I(53)), P(NegRaw(Pow2I(53)), -1), Pow2I(62), P(Pow2I(62), -1), NegRaw(Pow2I(62)),
   FromDigits(<<3, 0, 3, 7, 0, 0, 0, 4, 9, 9>>, 10).v, NegRaw(FromDigits(<<3, 0, 3, 7, 0, 0, 0, 5, 0, 0>>, 10).v),
   FromDigits(<<1, 2, 3, 4, 5, 6, 7, 8, 9, 0, 1, 2, 3, 4, 5, 6, 7, 8>>, 10).v}

SmallVals == (-SmallN)..SmallN
Scaled == {x * 327 : x \in SmallVals} \cup {x * 32768 : x \in -3..3} \cup {x * 46340 : x \in {-1, 1}} \cup {46341, -46341}

\* two-level enumeration so that TLC's workers share the pairs: an initial state fixes a, its successors choose b
Init == \/ /\ mode = "small0" /\ a \in SmallVals \cup Scaled /\ b = 0
        \/ /\ mode = "edge0" /\ a \in EdgePool /\ b = Zero
Next == \/ /\ mode = "small0" /\ mode' = "small" /\ a' = a /\ b' \in SmallVals \cup {32767, 32768, -32768, 46340, -46341}
        \/ /\ mode = "edge0" /\ mode' = "edge" /\ a' = a /\ b' \in EdgePool

NativeFits(x) == x > -2147483647 /\ x < 2147483647
SgnDiv(x, y) == LET q == (IF x < 0 THEN -x ELSE x) \div (IF y < 0 THEN -y ELSE y)
                IN IF (x < 0) = (y < 0) THEN q ELSE -q
SgnRem(x, y) == x - y * SgnDiv(x, y)

SmallOK ==
  mode = "small" =>
    LET A == FromInt(a)  B2 == FromInt(b) IN
    /\ IsInt64Shape(A) /\ ToSmall(A) = a
    /\ Add(A, B2).ok /\ ToSmall(Add(A, B2).v) = a + b
    /\ Sub(A, B2).ok /\ ToSmall(Sub(A, B2).v) = a - b
    /\ Neg(A).ok /\ ToSmall(Neg(A).v) = -a
    /\ Abs(A).ok /\ ToSmall(Abs(A).v) = (IF a < 0 THEN -a ELSE a)
    /\ Cmp(A, B2) = (IF a < b THEN -1 ELSE IF a > b THEN 1 ELSE 0)
    /\ ((a < 46341 /\ a > -46341 /\ b < 46341 /\ b > -46341) =>
          /\ Mul(A, B2).ok /\ IsSmall(Mul(A, B2).v) /\ ToSmall(Mul(A, B2).v) = a * b)
    /\ (b # 0 => /\ Div(A, B2).ok /\ ToSmall(Div(A, B2).v) = SgnDiv(a, b)
                 /\ RemExact(A, B2).ok /\ ToSmall(RemExact(A, B2).v) = SgnRem(a, b))
    /\ (b = 0 => ~Div(A, B2).ok /\ ~RemExact(A, B2).ok)
    /\ FromBits(ToBits(A)) = A
    /\ BitNot(A) = FromInt(-a - 1)
    /\ (b \in 0..14 /\ a \in -60000..60000 => Shl(A, b) = FromInt(a * Pow2[b + 1]))
    /\ (b \in 0..14 => Shr(A, b) = FromInt(IF a >= 0 THEN a \div Pow2[b + 1] ELSE -((-a + Pow2[b + 1] - 1) \div Pow2[b + 1])))
    /\ BitXor(A, B2) = Sub(BitOr(A, B2), BitAnd(A, B2)).v       \* x ^ y = (x | y) - (x & y)
    /\ AddRaw(BitAnd(A, B2), BitOr(A, B2)) = AddRaw(A, B2)           \* (x & y) + (x | y) = x + y
    /\ (a >= 0 => ToDecimalText(A) = ToDecimalText(FromDigits([i \in 1..Len(MagToDigits(Mag(A), <<>>)) |-> MagToDigits(Mag(A), <<>>)[i]], 10).v))

EdgeOK ==
  mode = "edge" =>
    /\ IsInt64Shape(a) /\ IsInt64Shape(b) /\ Chk(a).ok /\ Chk(b).ok
    /\ (Add(a, b).ok => Sub(Add(a, b).v, b) = [ok |-> TRUE, v |-> a])
    /\ (Sub(a, b).ok => Add(Sub(a, b).v, b) = [ok |-> TRUE, v |-> a])
    /\ Add(a, b) = Add(b, a) /\ Mul(a, b) = Mul(b, a)
    \* overflow exactly when the mathematical result leaves the range
    /\ (~Add(a, b).ok <=> ~InRange(Sign(AddRaw(a, b)), Mag(AddRaw(a, b))))
    /\ (Neg(a).ok <=> a # MinInt) /\ (Abs(a).ok <=> a # MinInt)
    /\ (b # Zero =>
          LET q == MagDivMod(Mag(a), Mag(b)) IN
          \* a = q * b + r and |r| < |b|, on magnitudes (which is what truncation means)
          /\ MagCmp(q.r, Mag(b)) < 0
          /\ LET p == MagMul(q.q, Mag(b)) IN
             /\ <<p[6], p[7], p[8], p[9], p[10]>> = MagZero
             /\ MagAdd(<<p[1], p[2], p[3], p[4], p[5]>>, q.r) = [m |-> Mag(a), c |-> 0]
          /\ (Div(a, b).ok <=> ~(a = MinInt /\ b = MinusOne))
          /\ RemExact(a, b).ok
          /\ Sign(RemExact(a, b).v) \in {0, Sign(a)})
    /\ (b = Zero => ~Div(a, b).ok /\ ~RemExact(a, b).ok)
    /\ (Mul(a, b).ok /\ b # Zero => Div(Mul(a, b).v, b) = [ok |-> TRUE, v |-> a])
    /\ (Mul(a, b).ok <=> \/ a = Zero \/ b = Zero
                         \/ LET lim == IF Sign(a) = Sign(b) THEN Mag(MaxInt) ELSE Two63 IN
                            MagCmp(Mag(a), MagDivMod(lim, Mag(b)).q) <= 0)
    /\ FromBits(ToBits(a)) = a
    /\ BitNot(BitNot(a)) = a
    /\ AddRaw(BitNot(a), a) = MinusOne
    /\ BitAnd(a, b) = BitAnd(b, a) /\ BitOr(a, b) = BitOr(b, a) /\ BitXor(a, b) = BitXor(b, a)
    /\ BitXor(BitXor(a, b), b) = a
    /\ AddRaw(BitAnd(a, b), BitOr(a, b)) = AddRaw(a, b)
    /\ Shl(a, 0) = a /\ Shr(a, 0) = a
    /\ Shr(a, 63) = (IF Sign(a) = 1 THEN MinusOne ELSE Zero)
    /\ (Add(a, a).ok => Shl(a, 1) = Add(a, a).v)
    /\ Shl(Shr(a, 7), 7) = BitAnd(a, FromInt(-128))
    /\ Shr(Shr(a, 20), 13) = Shr(a, 33)
    /\ Shl(Shl(a, 20), 13) = Shl(a, 33)
    /\ (Sign(a) = 0 => Shr(a, 16) = Mk(0, MagDivSmall(MagDivSmall(Mag(a), 256).q, 256).q))
    /\ (Sign(a) = 0 => FromDigits(MagToDigits(Mag(a), <<>>), 10) = [ok |-> TRUE, v |-> a])
    /\ Cmp(a, b) = -Cmp(b, a)
    /\ (Cmp(a, b) = 0 <=> a = b)
    /\ (Sub(a, b).ok => (Cmp(a, b) = (IF Sub(a, b).v = Zero THEN 0 ELSE IF Sign(Sub(a, b).v) = 1 THEN -1 ELSE 1)))

DigitsOK ==
  /\ FromDigits(<<9, 2, 2, 3, 3, 7, 2, 0, 3, 6, 8, 5, 4, 7, 7, 5, 8, 0, 7>>, 10) = [ok |-> TRUE, v |-> MaxInt]
  /\ ~FromDigits(<<9, 2, 2, 3, 3, 7, 2, 0, 3, 6, 8, 5, 4, 7, 7, 5, 8, 0, 8>>, 10).ok
  /\ ~FromDigits([i \in 1..40 |-> 9], 10).ok
  /\ FromDigits(<<7, 15, 15, 15, 15, 15, 15, 15, 15, 15, 15, 15, 15, 15, 15, 15>>, 16) = [ok |-> TRUE, v |-> MaxInt]
  /\ ~FromDigits(<<8, 0, 0, 0, 0, 0, 0, 0, 0, 0, 0, 0, 0, 0, 0, 0>>, 16).ok
  /\ FromDigits(<<0, 0, 0, 0, 1, 14>>, 16) = [ok |-> TRUE, v |-> FromInt(30)]
  /\ ToDecimalText(MinInt) = <<45, 57, 50, 50, 51, 51, 55, 50, 48, 51, 54, 56, 53, 52, 55, 55, 53, 56, 48, 56>>
  /\ ToDecimalText(Zero) = <<48>>
ASSUME DigitsOK
=============================================================================
