----------------------------- MODULE MC_Tokens -----------------------------
(***************************************************************************)
(* Enumerates every token sequence up to MaxLen over a named alphabet,     *)
(* classifies it with the normative grammar, checks the grammar's own      *)
(* theorems on it, and emits one conformance case per sequence             *)
(* (C13: ill-formed input is rejected; C05: sequences; C02/C14: trees and  *)
(* identifier occurrences of well-formed input; C01: totality).            *)
(***************************************************************************)
EXTENDS Api
CONSTANTS MaxLen, AlphaName
VARIABLE toks

One == TLit(VNat(1), <<49>>)
Two == TLit(VNat(2), <<50>>)
TrueT == TLit(VBool(TRUE), TrueText)
StrT == TLit(VStr(<<97>>), <<34, 97, 34>>)
X == TId(<<120>>)
Y == TId(<<121>>)
F == TId(<<102>>)
Ops(S) == {TOp(o) : o \in S}

Alphabet ==
  CASE AlphaName = "core"  -> {One, X, F} \cup Ops({"-", "!", "^", "*", "+", "<", "=", "+=", "(", ")", ",", ";"})
    [] AlphaName = "seq"   -> {One, X} \cup Ops({"(", ")", ",", ";"})
    [] AlphaName = "seqas" -> {One, X} \cup Ops({"(", ")", ",", ";", "=", "+", "+="})
    [] AlphaName = "ops"   -> {One, X} \cup Ops(PlainBinOps \cup PrefixOps)
    [] AlphaName = "assign"-> {One, X, Y} \cup Ops(AssignOps \cup {"+", ";"})
    [] AlphaName = "call"  -> {One, StrT, X, F, TId(<<108, 101, 110>>)} \cup Ops({"(", ")", ",", "-", "^", "*"})   \* len: a builtin name
    [] AlphaName = "idents"-> {X, Y, F} \cup Ops({"=", "+=", ";", ",", "(", ")", "+"})       \* two variable names: order of occurrences
    \* "ifthen" / "ifelse": the enumerated sequence S is an ARGUMENT of the builtin `if`, in the branch that is NOT selected:
    \* `if ( false , S , 1 )` and `if ( true , 1 , S )`.  Functions are strict - all arguments are evaluated before the call -
    \* so an S that is not derivable (an operator without operand) makes every evaluation fail (C13) although the tree
    \* precompiles; an evaluator that skips the unselected branch gives the ill-formed input a meaning.
    [] AlphaName \in {"ifthen", "ifelse"} -> {One, X, F} \cup Ops({"-", "!", "^", "*", "+", "<", "=", "(", ")"})
    [] AlphaName = "wide"  -> {One, TrueT, X, Y, F} \cup Ops({"-", "!", "^", "%", "-", "==", "&&", "||", "=", "*=", "(", ")", ",", ";"})

Init == toks = <<>>
Next == Len(toks) < MaxLen /\ \E t \in Alphabet : toks' = Append(toks, t)

IfT == TId(<<105, 102>>)
FalseT == TLit(VBool(FALSE), FalseText)
\* the classified and emitted sequence: the enumerated one, or the enumerated one inside the frame of its family
Full == CASE AlphaName = "ifthen" -> <<IfT, TOp("("), FalseT, TOp(",")>> \o toks \o <<TOp(","), One, TOp(")")>>
          [] AlphaName = "ifelse" -> <<IfT, TOp("("), TrueT, TOp(","), One, TOp(",")>> \o toks \o <<TOp(")")>>
          [] OTHER -> toks

Cls == Classify(Full)

\* ---- theorems of the specification itself, checked on every sequence
RECURSIVE SeqShapeOK(_)
SeqShapeOK(n) ==          \* before normalisation: nesting of sequences only through parentheses
  /\ \A i \in 1..Len(n.k) : SeqShapeOK(n.k[i])
  /\ (n.o = "Tuple" => \A i \in 1..Len(n.k) : n.k[i].o \notin {"Tuple", "Chain"})
  /\ (n.o = "Chain" => \A i \in 1..Len(n.k) : n.k[i].o # "Chain")
  /\ (n.o \in {"Tuple", "Chain"} => Len(n.k) >= 2)
RECURSIVE AritiesOK(_)
AritiesOK(n) ==
  /\ \A i \in 1..Len(n.k) : AritiesOK(n.k[i])
  /\ CASE n.o \in BinNodes -> Len(n.k) = 2
       [] n.o \in {"Neg", "Not", "Call", "Par"} -> Len(n.k) = 1
       [] n.o \in {"Const", "Read", "Write", "Empty"} -> Len(n.k) = 0
       [] OTHER -> TRUE

SpecTheorems ==
  LET r == Loose(Full) IN
  /\ (~Balanced(Full) => ~r.ok)                                    \* unbalanced input is never derivable
  /\ (r.ok => SeqShapeOK(r.node) /\ AritiesOK(r.node))
  /\ (Cls.class = "WF" =>
        /\ WFAst(Cls.tree)
        \* rendering the tree and parsing it again is the identity: renderer, parser and
        \* the notion "parentheses required by the table" agree
        /\ Classify(Render(Cls.tree, Minimal)) = Cls
        /\ Classify(Render(Cls.tree, CallParens)) = Cls
        /\ Classify(Render(Cls.tree, AllParens)) = Cls)

Case == [kind |-> "parse", toks |-> TokTexts(Full), class |-> Cls.class, bal |-> Balanced(Full),
         tree |-> JTree(Cls.tree), occ |-> IF Cls.class = "WF" THEN Occurrences(Cls.tree) ELSE <<>>]
\* C05, value half: a well-formed sequence is also evaluated (x = 5 initially): the value of a chain is that of its last
\* element with the effects of the earlier ones applied, a tuple is flat, an absent element is the empty value
EvalAlphas == {"seq", "seqas"}
Ctx0 == HashMapCtx((<<120>> :> VNat(5)), EmptyMap, FALSE)
EvalCase == LET r == Core("mut", Cls.tree, St(Ctx0, <<>>)) IN
  [kind |-> "eval", check |-> "seq_value", toks |-> TokTexts(toks), ctx |-> CtxJson(Ctx0), level |-> "string", ek |-> "value",
   mode |-> "mut", allowed |-> {JPat(PatOf(r.r))}, exact |-> FALSE, det |-> TRUE, post |-> CtxJson(r.st.ctx), log |-> <<>>,
   nontrivial |-> Len(toks) >= 3]
Emit == /\ PrintT(ToJson(Case))
        /\ (AlphaName \in EvalAlphas /\ Cls.class = "WF" => PrintT(ToJson(EvalCase)))
=============================================================================
