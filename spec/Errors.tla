------------------------------- MODULE Errors -------------------------------
(***************************************************************************)
(* EvalexprError (src/error/mod.rs) as uniform records                     *)
(*   e variant name, a / b value payloads, n text payload (code points),   *)
(*   x / y numeric payloads, ts list of type names,                        *)
(* the error classes used where a property fixes only a class, and the     *)
(* uniform result record [ok, v, e].                                       *)
(***************************************************************************)
EXTENDS Values

ErrBase(e) == [e |-> e, a |-> VEmpty, b |-> VEmpty, n |-> <<>>, x |-> 0, y |-> 0, ts |-> <<>>]
NoErr == ErrBase("")
ErrA(e, a) == [ErrBase(e) EXCEPT !.a = a]
ErrAB(e, a, b) == [ErrBase(e) EXCEPT !.a = a, !.b = b]
ErrN(e, n) == [ErrBase(e) EXCEPT !.n = n]
ErrXY(e, x, y) == [ErrBase(e) EXCEPT !.x = x, !.y = y]

\* constructors named after the crate's
WrongOperatorArgumentAmount(actual, expected) == ErrXY("WrongOperatorArgumentAmount", expected, actual)
ExpectedString(v) == ErrA("ExpectedString", v)
ExpectedInt(v) == ErrA("ExpectedInt", v)
ExpectedFloat(v) == ErrA("ExpectedFloat", v)
ExpectedNumber(v) == ErrA("ExpectedNumber", v)
ExpectedNumberOrString(v) == ErrA("ExpectedNumberOrString", v)
ExpectedBoolean(v) == ErrA("ExpectedBoolean", v)
ExpectedTuple(v) == ErrA("ExpectedTuple", v)
ExpectedEmpty(v) == ErrA("ExpectedEmpty", v)
ExpectedFixedLengthTuple(len, v) == [ErrA("ExpectedFixedLengthTuple", v) EXCEPT !.x = len]
ExpectedRangedLengthTuple(lo, hi, v) == [ErrA("ExpectedRangedLengthTuple", v) EXCEPT !.x = lo, !.y = hi]
TypeError(v, types) == [ErrA("TypeError", v) EXCEPT !.ts = types]
WrongTypeCombination(opname, types) == [ErrN("WrongTypeCombination", <<>>) EXCEPT !.ts = types, !.x = 0]
VariableIdentifierNotFound(n) == ErrN("VariableIdentifierNotFound", n)
FunctionIdentifierNotFound(n) == ErrN("FunctionIdentifierNotFound", n)
ContextNotMutable == ErrBase("ContextNotMutable")
OutOfBoundsAccess == ErrBase("OutOfBoundsAccess")
CustomMessage(n) == ErrN("CustomMessage", n)
\* error for the type of the *existing* value (EvalexprError::expected_type)
ExpectedTypeOf(existing, actual) ==
  ErrA(CASE existing.t = "String" -> "ExpectedString" [] existing.t = "Int" -> "ExpectedInt"
         [] existing.t = "Float" -> "ExpectedFloat" [] existing.t = "Boolean" -> "ExpectedBoolean"
         [] existing.t = "Tuple" -> "ExpectedTuple" [] OTHER -> "ExpectedEmpty", actual)

ArithErrors == {"AdditionError", "SubtractionError", "NegationError", "MultiplicationError",
                "DivisionError", "ModulationError"}
TypeErrors == {"ExpectedString", "ExpectedInt", "ExpectedFloat", "ExpectedNumber", "ExpectedNumberOrString",
               "ExpectedBoolean", "ExpectedTuple", "ExpectedFixedLengthTuple", "ExpectedRangedLengthTuple",
               "ExpectedEmpty", "TypeError", "WrongTypeCombination"}
ArgErrors == {"WrongOperatorArgumentAmount", "WrongFunctionArgumentAmount"}
ErrClass(er) == IF er.e \in ArithErrors THEN "arith"
                ELSE IF er.e \in TypeErrors THEN "type"
                ELSE IF er.e \in ArgErrors THEN "arity"
                ELSE er.e

JErr(e) == [e |-> e.e, a |-> JVal(e.a), b |-> JVal(e.b), n |-> e.n, x |-> e.x, y |-> e.y, ts |-> e.ts]

Ok(v) == [ok |-> TRUE, v |-> v, e |-> NoErr]
Er(e) == [ok |-> FALSE, v |-> VEmpty, e |-> e]
=============================================================================
