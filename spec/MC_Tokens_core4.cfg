CONSTANTS MaxLen = 4 AlphaName = "core"
INIT Init
NEXT Next
INVARIANTS SpecTheorems Emit
CHECK_DEADLOCK FALSE
