-------------------------------- MODULE Text --------------------------------
(***************************************************************************)
(* Strings are sequences of Unicode code points.  This module holds what   *)
(* the specification needs to know about text: UTF-8 byte lengths and      *)
(* byte-indexed slicing (Rust strings are indexed by byte), the Unicode    *)
(* White_Space set (char::is_whitespace), trimming, ASCII case mapping,    *)
(* and the source text of literals (quoting / escaping, decimal integers). *)
(***************************************************************************)
EXTENDS Errors

QUOTE == 34
BSL == 92
NL == 10

Utf8Len(c) == IF c < 128 THEN 1 ELSE IF c < 2048 THEN 2 ELSE IF c < 65536 THEN 3 ELSE 4
RECURSIVE ByteLenFrom(_, _)
ByteLenFrom(s, i) == IF i > Len(s) THEN 0 ELSE Utf8Len(s[i]) + ByteLenFrom(s, i + 1)
ByteLen(s) == ByteLenFrom(s, 1)

\* number of characters that end exactly at byte offset `off`, or -1 if off is inside a character / beyond the end
RECURSIVE CharsAtByte(_, _, _, _)
CharsAtByte(s, off, i, acc) ==
  IF acc = off THEN i - 1
  ELSE IF i > Len(s) \/ acc > off THEN -1
  ELSE CharsAtByte(s, off, i + 1, acc + Utf8Len(s[i]))
CharIndexOfByte(s, off) == CharsAtByte(s, off, 1, 0)
\* s[start..end] by byte offsets (TLC integers); [ok, s]
ByteSlice(s, start, end) ==
  LET a == CharIndexOfByte(s, start)  b == CharIndexOfByte(s, end) IN
  IF start > end \/ a < 0 \/ b < 0 THEN [ok |-> FALSE, s |-> <<>>]
  ELSE [ok |-> TRUE, s |-> SubSeq(s, a + 1, b)]

\* Unicode White_Space (25 code points) = char::is_whitespace
WhiteSpace == (9..13) \cup {32, 133, 160, 5760} \cup (8192..8202) \cup {8232, 8233, 8239, 8287, 12288}
RECURSIVE TrimStartAt(_, _)
TrimStartAt(s, i) == IF i <= Len(s) /\ s[i] \in WhiteSpace THEN TrimStartAt(s, i + 1) ELSE i
RECURSIVE TrimEndAt(_, _)
TrimEndAt(s, j) == IF j >= 1 /\ s[j] \in WhiteSpace THEN TrimEndAt(s, j - 1) ELSE j
Trim(s) == LET i == TrimStartAt(s, 1) IN IF i > Len(s) THEN <<>> ELSE SubSeq(s, i, TrimEndAt(s, Len(s)))

IsAscii(s) == \A i \in 1..Len(s) : s[i] < 128
AsciiLower(s) == [i \in 1..Len(s) |-> IF s[i] >= 65 /\ s[i] <= 90 THEN s[i] + 32 ELSE s[i]]
AsciiUpper(s) == [i \in 1..Len(s) |-> IF s[i] >= 97 /\ s[i] <= 122 THEN s[i] - 32 ELSE s[i]]

\* lexicographic order of strings: Rust compares UTF-8 bytes, which orders like code points
RECURSIVE StrCmpAt(_, _, _)
StrCmpAt(x, y, i) ==
  IF i > Len(x) THEN (IF i > Len(y) THEN 0 ELSE -1)
  ELSE IF i > Len(y) THEN 1
  ELSE IF x[i] < y[i] THEN -1 ELSE IF x[i] > y[i] THEN 1 ELSE StrCmpAt(x, y, i + 1)
StrCmp(x, y) == StrCmpAt(x, y, 1)

\* source text of literals
RECURSIVE EscapeFrom(_, _)
EscapeFrom(s, i) ==
  IF i > Len(s) THEN <<>>
  ELSE (IF s[i] \in {QUOTE, BSL} THEN <<BSL, s[i]>> ELSE <<s[i]>>) \o EscapeFrom(s, i + 1)
QuoteText(s) == <<QUOTE>> \o EscapeFrom(s, 1) \o <<QUOTE>>
TrueText == <<116, 114, 117, 101>>
FalseText == <<102, 97, 108, 115, 101>>
\* literal text of a value that has a literal form without environment knowledge (non-negative ints, strings, booleans)
HasPlainLiteral(v) == (v.t = "Int" /\ Sign(v.i) = 0) \/ v.t \in {"String", "Boolean"}
PlainLiteralText(v) == CASE v.t = "Int" -> ToDecimalText(v.i)
                         [] v.t = "String" -> QuoteText(v.s)
                         [] v.t = "Boolean" -> (IF v.b THEN TrueText ELSE FalseText)

\* flatten a sequence of code-point sequences, separated by `sep`
RECURSIVE JoinFrom(_, _, _)
JoinFrom(parts, sep, i) ==
  IF i > Len(parts) THEN <<>>
  ELSE IF i = Len(parts) THEN parts[i]
  ELSE parts[i] \o sep \o JoinFrom(parts, sep, i + 1)
Join(parts, sep) == JoinFrom(parts, sep, 1)
=============================================================================
