-------------------------------- MODULE Prim --------------------------------
(***************************************************************************)
(* Environment primitives: facts about IEEE-754 arithmetic, libm, Rust's   *)
(* float formatting / parsing and Unicode case mapping that a TLA+         *)
(* specification cannot compute.  The table is produced by `primgen`, a    *)
(* program that does not link evalexpr, for the value pool of the model    *)
(* that is being checked, and is loaded once from the JSON file named by   *)
(* the environment variable PRIMS:                                         *)
(*     PrimTable.fadd["<<<<16368, 0, 0, 0>>, <<0, 0, 0, 0>>>>"] = <<..>>   *)
(* (the key is TLC's ToString of the argument tuple).  The specification   *)
(* decides WHICH primitive is applied to WHICH converted operands in       *)
(* WHICH order, and the type and error class of the result.                *)
(***************************************************************************)
EXTENDS Text, TLC, Json, IOUtils

PrimTable == JsonDeserialize(IOEnv.PRIMS)
Prim1(op, a) == PrimTable[op][ToString(<<a>>)]
Prim2(op, a, b) == PrimTable[op][ToString(<<a, b>>)]
=============================================================================
