------------------------------ MODULE Operators ------------------------------
(***************************************************************************)
(* The value-level semantics of evalexpr's operators                       *)
(* (src/operator/mod.rs Operator::eval): type dispatch, int/float          *)
(* promotion, checked integer arithmetic, string concatenation and         *)
(* comparison, structural equality, boolean operators, tuple and chain.    *)
(* ApplyOp(o, args) takes the already evaluated operands (a sequence,      *)
(* because an ill-formed tree may carry the wrong number) and returns the  *)
(* uniform result [ok, v, e].  Identifier and assignment nodes need the    *)
(* context and live in Eval.tla.                                           *)
(***************************************************************************)
EXTENDS Prim

ArithErr(name, a, b) == Er(ErrAB(name, a, b))
Checked(r, name, a, b) == IF r.ok THEN Ok(VInt(r.v)) ELSE ArithErr(name, a, b)

NumOrStr(v) == v.t \in {"Int", "Float", "String"}
TypeNames(args) == [i \in 1..Len(args) |-> args[i].t]

\* + - * / % on two operands that passed the type checks
IntOp(o, a, b) ==
  CASE o = "Add" -> Checked(Add(a.i, b.i), "AdditionError", a, b)
    [] o = "Sub" -> Checked(Sub(a.i, b.i), "SubtractionError", a, b)
    [] o = "Mul" -> Checked(Mul(a.i, b.i), "MultiplicationError", a, b)
    [] o = "Div" -> Checked(Div(a.i, b.i), "DivisionError", a, b)
    \* Rust's checked_rem also reports MIN % -1 (the implied division overflows)
    [] o = "Mod" -> IF a.i = MinInt /\ b.i = MinusOne THEN ArithErr("ModulationError", a, b)
                    ELSE Checked(RemExact(a.i, b.i), "ModulationError", a, b)
FloatPrim(o) == CASE o = "Add" -> "fadd" [] o = "Sub" -> "fsub" [] o = "Mul" -> "fmul"
                  [] o = "Div" -> "fdiv" [] o = "Mod" -> "frem" [] o = "Exp" -> "fpow"
FloatOp(o, a, b) == Ok(VFloat(Prim2(FloatPrim(o), AsNumber(a), AsNumber(b))))

\* < > <= >= on the result of a three-way comparison c, or on IEEE floats
OrdHolds(o, c) == CASE o = "Lt" -> c < 0 [] o = "Gt" -> c > 0 [] o = "Leq" -> c <= 0 [] o = "Geq" -> c >= 0
FloatOrd(o, x, y) == CASE o = "Lt" -> FLt(x, y) [] o = "Gt" -> FGt(x, y) [] o = "Leq" -> FLe(x, y) [] o = "Geq" -> FGe(x, y)

Arity(o) == CASE o \in {"Add", "Sub", "Mul", "Div", "Mod", "Exp", "Eq", "Neq", "Gt", "Lt", "Geq", "Leq", "And", "Or"} -> 2
              [] o \in {"Neg", "Not"} -> 1

ApplyOp(o, args) ==
  IF Len(args) # Arity(o) THEN Er(WrongOperatorArgumentAmount(Len(args), Arity(o)))
  ELSE
  LET a == args[1]
      b == IF Len(args) >= 2 THEN args[2] ELSE VEmpty
  IN
  CASE o = "Add" ->
         IF ~NumOrStr(a) THEN Er(ExpectedNumberOrString(a))
         ELSE IF ~NumOrStr(b) THEN Er(ExpectedNumberOrString(b))
         ELSE IF a.t = "String" /\ b.t = "String" THEN Ok(VStr(a.s \o b.s))
         ELSE IF a.t = "Int" /\ b.t = "Int" THEN IntOp(o, a, b)
         ELSE IF IsNumber(a) /\ IsNumber(b) THEN FloatOp(o, a, b)
         ELSE Er(WrongTypeCombination("Add", TypeNames(args)))
    [] o \in {"Sub", "Mul", "Div", "Mod"} ->
         IF ~IsNumber(a) THEN Er(ExpectedNumber(a))
         ELSE IF ~IsNumber(b) THEN Er(ExpectedNumber(b))
         ELSE IF a.t = "Int" /\ b.t = "Int" THEN IntOp(o, a, b)
         ELSE FloatOp(o, a, b)
    [] o = "Exp" ->
         IF ~IsNumber(a) THEN Er(ExpectedNumber(a))
         ELSE IF ~IsNumber(b) THEN Er(ExpectedNumber(b))
         ELSE FloatOp(o, a, b)                                      \* always a float
    [] o = "Neg" ->
         IF ~IsNumber(a) THEN Er(ExpectedNumber(a))
         ELSE IF a.t = "Int" THEN (LET r == Neg(a.i) IN IF r.ok THEN Ok(VInt(r.v)) ELSE Er(ErrA("NegationError", a)))
         ELSE Ok(VFloat(FNeg(a.f)))
    [] o = "Eq" -> Ok(VBool(ValEq(a, b)))
    [] o = "Neq" -> Ok(VBool(~ValEq(a, b)))
    [] o \in {"Gt", "Lt", "Geq", "Leq"} ->
         IF ~NumOrStr(a) THEN Er(ExpectedNumberOrString(a))
         ELSE IF ~NumOrStr(b) THEN Er(ExpectedNumberOrString(b))
         ELSE IF a.t = "String" /\ b.t = "String" THEN Ok(VBool(OrdHolds(o, StrCmp(a.s, b.s))))
         ELSE IF a.t = "Int" /\ b.t = "Int" THEN Ok(VBool(OrdHolds(o, Cmp(a.i, b.i))))
         ELSE IF ~IsNumber(a) THEN Er(ExpectedNumber(a))
         ELSE IF ~IsNumber(b) THEN Er(ExpectedNumber(b))
         ELSE Ok(VBool(FloatOrd(o, AsNumber(a), AsNumber(b))))         \* compared after conversion
    [] o \in {"And", "Or"} ->
         IF a.t # "Boolean" THEN Er(ExpectedBoolean(a))
         ELSE IF b.t # "Boolean" THEN Er(ExpectedBoolean(b))
         ELSE Ok(VBool(IF o = "And" THEN a.b /\ b.b ELSE a.b \/ b.b))
    [] o = "Not" ->
         IF a.t # "Boolean" THEN Er(ExpectedBoolean(a)) ELSE Ok(VBool(~a.b))

(***************************************************************************)
(* Where the documentation admits a second reading, the additional         *)
(* outcomes (used by the single-operator model MC_Ops only):               *)
(*  - MIN % -1: the mathematically exact remainder 0;                      *)
(*  - ordering of an Int that has no exact double against a Float: the     *)
(*    exact numerical comparison (IntVsFloatExact).                        *)
(***************************************************************************)
\* exact comparison of an i64 with a finite/infinite (non-NaN) double: -1, 0, 1.
\* |x| < 2^63 is compared through the integer part and the presence of a fraction, both read from the bits.
FloatIntPart(x) ==   \* [mag: magnitude limbs of trunc(|x|), frac: BOOLEAN]; requires |x| < 2^64, x finite
  LET e == ExpBits(x) - 1023                                   \* unbiased exponent
      mbits == [k \in 1..53 |->                                 \* little-endian significand with the implicit bit
                 IF k = 53 THEN (IF ExpBits(x) = 0 THEN 0 ELSE 1)
                 ELSE LET w == 4 - ((k - 1) \div 16)  j == (k - 1) % 16 IN
                      IF j = 15 THEN x[w] \div 32768 ELSE (x[w] \div Pow2[j + 1]) % 2]
  IN IF e < 0 THEN [mag |-> MagZero, frac |-> ~IsFZero(x)]
     ELSE \* value = significand * 2^(e - 52): integer bits are the significand bits from position 52 - e upwards
       LET ib == [k \in 1..64 |-> LET src == k + (52 - e) IN IF src >= 1 /\ src <= 53 THEN mbits[src] ELSE 0]
           fr == \E k \in 1..53 : k < 52 - e + 1 /\ mbits[k] = 1
       IN [mag |-> BitsToMag(ib), frac |-> fr]
IntVsFloatExact(i, x) ==       \* requires ~IsNaN(x)
  IF IsInf(x) THEN (IF SignBit(x) = 1 THEN 1 ELSE -1)
  ELSE IF ExpBits(x) - 1023 >= 64 THEN (IF SignBit(x) = 1 THEN 1 ELSE -1)      \* |x| >= 2^64 > any i64
  ELSE LET p == FloatIntPart(x)
           xi == Mk(SignBit(x), p.mag)                        \* trunc(x) as a (possibly out-of-range) integer
           c == Cmp(i, xi)
       IN IF c # 0 THEN c
          ELSE IF ~p.frac THEN 0
          ELSE IF SignBit(x) = 1 THEN 1 ELSE -1               \* x = xi +/- fraction

AltOutcomes(o, args) ==
  IF Len(args) # 2 THEN {}
  ELSE LET a == args[1]  b == args[2] IN
    IF o = "Mod" /\ a.t = "Int" /\ b.t = "Int" /\ a.i = MinInt /\ b.i = MinusOne THEN {Ok(VInt(Zero))}
    ELSE IF o \in {"Gt", "Lt", "Geq", "Leq"} /\ a.t = "Int" /\ b.t = "Float" /\ ~IsNaN(b.f)
         THEN {Ok(VBool(OrdHolds(o, IntVsFloatExact(a.i, b.f))))}
    ELSE IF o \in {"Gt", "Lt", "Geq", "Leq"} /\ a.t = "Float" /\ b.t = "Int" /\ ~IsNaN(a.f)
         THEN {Ok(VBool(OrdHolds(o, -IntVsFloatExact(b.i, a.f))))}
    ELSE {}
=============================================================================
