------------------------------- MODULE MC_Ops -------------------------------
(***************************************************************************)
(* C03: every operator on every pair of pool values.  Two-level            *)
(* enumeration (an initial state fixes operator and left operand, its      *)
(* successors choose the right operand) so that TLC's workers share the    *)
(* pairs.  For every triple TLC checks the laws below on the specification *)
(* and emits conformance cases: `a op b` with the operands bound as        *)
(* variables, and with the operands as literals where literals exist.      *)
(***************************************************************************)
EXTENDS Api, Pools
VARIABLES op, a, b, lvl

UnaryOps == {"Neg", "Not"}
OpsAll == PlainBinNodes \cup UnaryOps
Init == lvl = 1 /\ op \in OpsAll /\ a \in Pool /\ b = VEmpty
Next == /\ lvl = 1 /\ lvl' = 2 /\ UNCHANGED <<op, a>>
        /\ b' \in (IF op \in UnaryOps THEN {VEmpty} ELSE Pool)

Operands == IF op \in UnaryOps THEN <<a>> ELSE <<a, b>>
R == ApplyOp(op, Operands)
Allowed == {PatOf(R)} \cup {PatOf(r) : r \in AltOutcomes(op, Operands)}

NameA == <<97>>
NameB == <<98>>
OpSym == IF op \in UnaryOps THEN (IF op = "Neg" THEN <<45>> ELSE <<33>>) ELSE OpText[NodeOp[op]]
Ctx == HashMapCtx((NameA :> a) @@ (IF op \in UnaryOps THEN EmptyMap ELSE (NameB :> b)), EmptyMap, FALSE)
SrcVars == IF op \in UnaryOps THEN OpSym \o <<32>> \o NameA ELSE NameA \o <<32>> \o OpSym \o <<32>> \o NameB
HasLits == HasPlainLiteral(a) /\ (op \in UnaryOps \/ HasPlainLiteral(b))
SrcLits == IF op \in UnaryOps THEN OpSym \o <<32>> \o PlainLiteralText(a)
           ELSE PlainLiteralText(a) \o <<32>> \o OpSym \o <<32>> \o PlainLiteralText(b)
NonTrivial == R.ok \/ ErrClass(R.e) = "arith"

CaseVars == [kind |-> "eval", check |-> "op", src |-> SrcVars, ctx |-> CtxJson(Ctx), level |-> "string", ek |-> "value",
             mode |-> "imm", allowed |-> JPats(Allowed), exact |-> FALSE, det |-> TRUE, post |-> CtxJson(Ctx), log |-> <<>>,
             nontrivial |-> NonTrivial]
CaseLits == [kind |-> "eval", check |-> "op", src |-> SrcLits, ctx |-> CtxJson(NewHashMap), level |-> "tree", ek |-> "value",
             mode |-> "mut", allowed |-> JPats(Allowed), exact |-> FALSE, det |-> TRUE, post |-> CtxJson(NewHashMap), log |-> <<>>,
             nontrivial |-> NonTrivial]
Emit == lvl = 2 => /\ PrintT(ToJson(CaseVars))
                   /\ (HasLits => PrintT(ToJson(CaseLits)))

\* ---- laws of the specification, checked on every triple
Arith == {"Add", "Sub", "Mul", "Div", "Mod"}
Ordering == {"Gt", "Lt", "Geq", "Leq"}
Mirror(o) == CASE o = "Lt" -> "Gt" [] o = "Gt" -> "Lt" [] o = "Leq" -> "Geq" [] o = "Geq" -> "Leq"
SpecTheorems ==
  lvl = 2 =>
    /\ (R.ok => IsValue(R.v))
    /\ (R.ok /\ op = "Exp" => R.v.t = "Float")                                  \* ^ always yields a float
    /\ (R.ok /\ op \in Ordering \cup {"Eq", "Neq", "And", "Or", "Not"} => R.v.t = "Boolean")
    /\ (R.ok /\ op \in Arith /\ a.t = "Int" /\ b.t = "Int" => R.v.t = "Int")    \* int op int is never promoted
    /\ (R.ok /\ op \in Arith \ {"Add"} /\ "Float" \in {a.t, b.t} => R.v.t = "Float")
    /\ (op \in Arith /\ a.t = "Int" /\ b.t = "Int" => (R.ok \/ ErrClass(R.e) = "arith"))
    /\ (op \in Arith \cup {"Exp"} /\ ~(IsNumber(a) /\ IsNumber(b)) /\ ~(op = "Add" /\ a.t = "String" /\ b.t = "String")
          => ~R.ok /\ ErrClass(R.e) = "type")
    /\ (op \in Ordering => LET m == ApplyOp(Mirror(op), <<b, a>>) IN m.ok = R.ok /\ (R.ok => m = R))   \* a < b  <=>  b > a
    /\ (op = "Eq" => ApplyOp("Neq", Operands).v.b = ~R.v.b /\ ApplyOp("Eq", <<b, a>>) = R)
    /\ (op = "Lt" /\ R.ok /\ R.v.b => ~ApplyOp("Geq", Operands).v.b /\ ApplyOp("Leq", Operands).v.b)
    /\ (op = "Add" /\ a.t = "Int" /\ b.t = "Int" => ApplyOp("Add", <<b, a>>).ok = R.ok)
    /\ (op = "Neg" /\ a.t = "Int" => (R.ok <=> a.i # MinInt))
    /\ (op = "Neg" /\ R.ok => ApplyOp("Neg", <<R.v>>) = Ok(a))
    \* the alternative readings only ever differ on the documented corner cases
    /\ (AltOutcomes(op, Operands) # {} /\ op \in Ordering /\ a.t = "Int" /\ IsSmall(a.i)
          => AltOutcomes(op, Operands) = {R})

\* the conversion defined on the bits agrees with the hardware on every pool integer
ASSUME \A i \in Ints : IntToFloat(i) = Prim1("i2f", i)
=============================================================================
