----------------------------- MODULE TreeBuilder -----------------------------
(***************************************************************************)
(* An IMPLEMENTATION-SHAPED model of the crate's tree builder              *)
(* (src/tree/mod.rs: tokens_to_operator_tree, Node::insert_back_prioritized,*)
(* collapse_all_sequences), as opposed to the declarative Grammar.tla.     *)
(* It is a token-consuming stack machine:                                  *)
(*     state  = <<root_stack, last_token_is_rightsided_value>>             *)
(*     one step per token (Feed); Finish collapses the open sequences.     *)
(* Trees here keep the crate's RootNode wrappers ("Root").                 *)
(*                                                                         *)
(* Uses:                                                                   *)
(*  - MC_TreeBuilder checks by TLC that this machine REFINES the grammar:  *)
(*    on every token sequence up to a bound, a well-formed one yields the  *)
(*    grammar's tree, an ill-formed one is rejected or yields an           *)
(*    arity-deficient tree, balance is reported correctly.  (Run on the    *)
(*    machine as it was before the repairs D1-D3 - constant Repaired =     *)
(*    FALSE - the same check exhibits those three defects at the level of  *)
(*    the design.)                                                         *)
(*  - Its outcome for EVERY token sequence (trees of unspecified inputs    *)
(*    and the error variant included) is replayed against the real crate   *)
(*    as a diagnostic.  Because a behaviour-preserving refactoring of the  *)
(*    builder may change error variants or unspecified trees, that replay  *)
(*    never decides a property (DESIGN.md rule 4.5).                       *)
(***************************************************************************)
EXTENDS Builtins, Grammar
CONSTANT Repaired            \* TRUE: the builder after the fix: commits D1-D3; FALSE: as pinned

RootN(k) == NOp("Root", k)
PrecN(o) == CASE o = "Root" -> 200
              [] o \in {"Add", "Sub"} -> 95 [] o \in {"Neg", "Not"} -> 110 [] o \in {"Mul", "Div", "Mod"} -> 100 [] o = "Exp" -> 120
              [] o \in {"Eq", "Neq", "Gt", "Lt", "Geq", "Leq"} -> 80 [] o = "And" -> 75 [] o = "Or" -> 70
              [] o \in AssignNodes -> 50 [] o = "Tuple" -> 40 [] o = "Chain" -> 0
              [] o \in {"Const", "Read", "Write"} -> 200 [] o = "Call" -> 190
LtrN(o) == o \notin {"Assign", "Call"}
IsSeqN(o) == o \in {"Tuple", "Chain"}
MaxArgs(o) == CASE o \in PlainBinNodes \cup AssignNodes -> 2 [] o \in {"Tuple", "Chain"} -> -1
                [] o \in {"Not", "Neg", "Root", "Call"} -> 1 [] OTHER -> 0
IsLeafN(o) == MaxArgs(o) = 0
IsUnaryN(o) == MaxArgs(o) = 1 /\ o # "Root"
HasEnough(n) == Len(n.k) = MaxArgs(n.o)
TooMany(n) == MaxArgs(n.o) >= 0 /\ Len(n.k) > MaxArgs(n.o)

BOk(n) == [ok |-> TRUE, node |-> n, err |-> ""]
BErr(e) == [ok |-> FALSE, node |-> NEmpty, err |-> e]
Front(s) == SubSeq(s, 1, Len(s) - 1)
Last(s) == s[Len(s)]
WithLast(n, c) == [n EXCEPT !.k = Append(Front(n.k), c)]

\* Node::insert_back_prioritized(self, node, is_root_node)
RECURSIVE Insert(_, _, _)
Insert(self, node, isRoot) ==
  LET Deeper(x) == \/ PrecN(x.o) < PrecN(node.o) \/ IsUnaryN(node.o)
                   \/ (PrecN(x.o) = PrecN(node.o) /\ ~LtrN(x.o) /\ ~LtrN(node.o))         \* right-to-left chaining
  IN
  IF ~(Deeper(self) \/ isRoot) THEN BErr("PrecedenceViolation")
  ELSE IF IsLeafN(self.o) THEN BErr("AppendedToLeafNode")
  ELSE IF HasEnough(self) THEN
    LET last == Last(self.k) IN
    IF Deeper(last)
    THEN LET r == Insert(last, node, FALSE) IN IF r.ok THEN BOk(WithLast(self, r.node)) ELSE r
    ELSE \* rotate: the new node takes the last child as its first child
      IF IsLeafN(node.o) THEN BErr("AppendedToLeafNode")
      ELSE IF self.o = "Root" /\ Len(self.k) > 1 THEN BErr("MissingOperatorOutsideOfBrace")
      ELSE IF self.o = "Root" /\ node.o = "Root" THEN BErr("MissingOperatorOutsideOfBrace")
      ELSE IF node.o = "Root" /\ (Repaired \/ node.k # <<>>) THEN BErr("MissingOperatorOutsideOfBrace")      \* D3
      ELSE IF node.o = "Root" /\ last.o = "Root" THEN BErr("MissingOperatorOutsideOfBrace")
      ELSE BOk(WithLast(self, [node EXCEPT !.k = Append(@, last)]))
  ELSE IF Repaired /\ MaxArgs(self.o) = 2 /\ self.k = <<>> THEN BErr("WrongOperatorArgumentAmount")          \* D2
  ELSE BOk([self EXCEPT !.k = Append(@, node)])

\* collapse_all_sequences(root_stack): [ok, stack, err]
RECURSIVE CollapseLoop(_, _)
CollapseLoop(stack, root) ==
  IF root.o = "Root" THEN
     IF TooMany(root) THEN [ok |-> FALSE, stack |-> <<>>, err |-> "MissingOperatorOutsideOfBrace"]
     ELSE [ok |-> TRUE, stack |-> Append(stack, root), err |-> ""]
  ELSE IF stack = <<>> THEN [ok |-> FALSE, stack |-> <<>>, err |-> "UnmatchedRBrace"]
  ELSE LET higher == Last(stack) IN
       IF IsSeqN(root.o) THEN CollapseLoop(Front(stack), [higher EXCEPT !.k = Append(@, root)])
       ELSE IF TooMany(root) THEN [ok |-> FALSE, stack |-> <<>>, err |-> "MissingOperatorOutsideOfBrace"]
       ELSE [ok |-> TRUE, stack |-> Append(stack, root), err |-> ""]
CollapseAll(stack) ==
  IF stack = <<>> THEN [ok |-> FALSE, stack |-> <<>>, err |-> "UnmatchedRBrace"]
  ELSE CollapseLoop(Front(stack), Last(stack))

\* the pinned (pre-D1) collapse_root_stack_to
RECURSIVE CollapseTo(_, _, _)
CollapseTo(stack, root, goalPrec) ==
  IF stack = <<>> THEN [ok |-> FALSE, stack |-> <<>>, root |-> root]
  ELSE LET higher == Last(stack) IN
       IF PrecN(higher.o) > goalPrec THEN CollapseTo(Front(stack), [higher EXCEPT !.k = Append(@, root)], goalPrec)
       ELSE [ok |-> TRUE, stack |-> stack, root |-> root]

\* the node a token stands for ("none" for parentheses); nx is the next token
TokenNode(t, nx, lastRV) ==
  CASE t.k = "lit" -> NConst(t.v, <<>>)
    [] t.k = "id" -> IF nx.k = "op" /\ nx.o \in AssignOps THEN NLeaf("Write", t.n)
                     ELSE IF LeftSided(nx) THEN NLeaf("Call", t.n) ELSE NLeaf("Read", t.n)
    [] t.o = "-" -> NOp(IF lastRV THEN "Sub" ELSE "Neg", <<>>)
    [] t.o = "!" -> NOp("Not", <<>>)
    [] t.o = "," -> NOp("Tuple", <<>>)
    [] t.o = ";" -> NOp("Chain", <<>>)
    [] OTHER -> NOp(BinNode(t.o), <<>>)
RightSidedValue(t) == t.k \in {"lit", "id"} \/ IsOp(t, ")")

MState(stack, rv) == [ok |-> TRUE, stack |-> stack, rv |-> rv, err |-> ""]
MFail(e) == [ok |-> FALSE, stack |-> <<>>, rv |-> FALSE, err |-> e]

\* placing a node (an operator, operand, sequence separator or a finished parenthesis group) on the stack
Place(stack, node) ==
  IF stack = <<>> THEN MFail("UnmatchedRBrace")
  ELSE LET root == Last(stack)  rest == Front(stack) IN
  IF IsSeqN(node.o) THEN
     IF root.o = node.o THEN MState(Append(rest, [root EXCEPT !.k = Append(@, RootN(<<>>))]), FALSE)
     ELSE IF root.o = "Root" THEN MState(rest \o <<RootN(<<>>), [node EXCEPT !.k = <<root, RootN(<<>>)>>]>>, FALSE)
     ELSE IF PrecN(root.o) < PrecN(node.o)
          THEN \* the new sequence binds tighter: it takes over the last element of the open one
               MState(rest \o <<[root EXCEPT !.k = Front(@)], [node EXCEPT !.k = <<Last(root.k), RootN(<<>>)>>]>>, FALSE)
     ELSE IF Repaired THEN                                                                                     \* D1
          IF rest = <<>> THEN MFail("UnmatchedRBrace")
          ELSE LET lower == Last(rest) IN
               IF lower.o = node.o
               THEN MState(Append(Front(rest), [lower EXCEPT !.k = @ \o <<root, RootN(<<>>)>>]), FALSE)
               ELSE MState(Front(rest) \o <<lower, [node EXCEPT !.k = <<root, RootN(<<>>)>>]>>, FALSE)
     ELSE LET c == CollapseTo(rest, root, PrecN(node.o)) IN
          IF ~c.ok THEN MFail("UnmatchedRBrace")
          ELSE MState(Append(c.stack, [node EXCEPT !.k = <<c.root>>]), FALSE)
  ELSE IF IsSeqN(root.o) THEN
     LET r == Insert(Last(root.k), node, TRUE) IN
     IF r.ok THEN MState(Append(rest, WithLast(root, r.node)), FALSE) ELSE MFail(r.err)
  ELSE LET r == Insert(root, node, TRUE) IN
       IF r.ok THEN MState(Append(rest, r.node), FALSE) ELSE MFail(r.err)

\* one token
Feed(st, t, nx) ==
  LET placed ==
        IF IsOp(t, "(") THEN MState(Append(st.stack, RootN(<<>>)), FALSE)
        ELSE IF IsOp(t, ")") THEN
             IF Len(st.stack) <= 1 THEN MFail("UnmatchedRBrace")
             ELSE LET c == CollapseAll(st.stack) IN
                  IF ~c.ok THEN MFail(c.err) ELSE Place(Front(c.stack), Last(c.stack))
        ELSE Place(st.stack, TokenNode(t, nx, st.rv))
  IN IF placed.ok THEN [placed EXCEPT !.rv = RightSidedValue(t)] ELSE placed

RECURSIVE Run(_, _, _)
Run(ts, i, st) == IF ~st.ok \/ i > Len(ts) THEN st ELSE Run(ts, i + 1, Feed(st, ts[i], At(ts, i + 1)))

\* tokens_to_operator_tree: [ok, tree, err]
ImplBuild(ts) ==
  LET st == Run(ts, 1, MState(<<RootN(<<>>)>>, FALSE)) IN
  IF ~st.ok THEN [ok |-> FALSE, tree |-> NEmpty, err |-> st.err]
  ELSE LET c == CollapseAll(st.stack) IN
       IF ~c.ok THEN [ok |-> FALSE, tree |-> NEmpty, err |-> c.err]
       ELSE IF Len(c.stack) > 1 THEN [ok |-> FALSE, tree |-> NEmpty, err |-> "UnmatchedLBrace"]
       ELSE [ok |-> TRUE, tree |-> c.stack[1], err |-> ""]

\* the normal form shared with the grammar and the harness: wrapper nodes with one child vanish, empty ones are Empty
RECURSIVE NormRoot(_)
NormRoot(n) == IF n.o = "Root" /\ Len(n.k) = 1 THEN NormRoot(n.k[1])
               ELSE IF n.o = "Root" /\ Len(n.k) = 0 THEN NEmpty
               ELSE [n EXCEPT !.k = [i \in 1..Len(n.k) |-> NormRoot(n.k[i])]]
RECURSIVE StripText(_)
StripText(n) == [n EXCEPT !.n = IF n.o = "Const" THEN <<>> ELSE @, !.k = [i \in 1..Len(n.k) |-> StripText(n.k[i])]]
RECURSIVE Deficient(_)
Deficient(n) == \/ (n.o = "Root" /\ Len(n.k) > 1) \/ (n.o = "Chain" /\ Len(n.k) = 0)
                \/ (n.o \notin {"Root", "Tuple", "Chain", "Empty"} /\ Len(n.k) # MaxArgs(n.o))
                \/ \E i \in 1..Len(n.k) : Deficient(n.k[i])

\* Display of a tree (src/tree/display.rs, src/operator/display.rs): the operator, then every child preceded by a blank -
\* prefix notation in which wrapper nodes print nothing
OpDisplay(n) ==
  CASE n.o = "Root" -> <<>>
    [] n.o \in {"Const"} -> DisplayValue(n.v)
    [] n.o \in {"Read", "Write", "Call"} -> n.n
    [] n.o = "Neg" -> <<45>> [] n.o = "Not" -> <<33>>
    [] n.o = "Tuple" -> <<44, 32>> [] n.o = "Chain" -> <<59, 32>>
    [] n.o \in AssignNodes -> <<32>> \o OpText[NodeOp[n.o]] \o <<32>>
    [] OTHER -> OpText[NodeOp[n.o]]
RECURSIVE DisplayTree(_)
RECURSIVE DisplayKids(_, _)
DisplayKids(k, i) == IF i > Len(k) THEN <<>> ELSE <<32>> \o DisplayTree(k[i]) \o DisplayKids(k, i + 1)
DisplayTree(n) == OpDisplay(n) \o DisplayKids(n.k, 1)

\* does the machine refine the grammar on ts?
Refines(ts) ==
  LET c == Classify(ts)  b == ImplBuild(ts) IN
  /\ (c.class = "WF" => b.ok /\ StripText(NormRoot(b.tree)) = StripText(c.tree))
  /\ (c.class = "IF" => ~b.ok \/ Deficient(b.tree))
  /\ (~Balanced(ts) => ~b.ok)
  /\ (Balanced(ts) /\ ~b.ok => b.err \notin {"UnmatchedLBrace", "UnmatchedRBrace"})
=============================================================================
