CONSTANTS SmallN = 40
INIT Init
NEXT Next
INVARIANTS SmallOK EdgeOK
CHECK_DEADLOCK FALSE
