------------------------------ MODULE Trace_Api ------------------------------
(***************************************************************************)
(* Code -> spec: validates an execution recorded from the real crate       *)
(* (`harness record`, one JSON object per public call, in call order)      *)
(* against the actions of Api.tla.  Every argument and every result is     *)
(* logged, so each event has exactly one candidate successor and           *)
(* validation is linear in the length of the trace.                        *)
(*                                                                         *)
(* Events (field `ev`):                                                    *)
(*   ctx        (slot, ctx)                install a context in a slot     *)
(*   eval       (slot, src, level, ek, mode, res, post, log [, tree])      *)
(*   set_value  (slot, n, v, res, post)   set_function (slot, n, b, v)     *)
(*   clear_variables / clear_functions / clear / set_builtins (slot [, d]) *)
(*   clone      (slot, to)                 get_value (slot, n, res)        *)
(*   build      (src, res [, tree])        precompilation only             *)
(*   deep       (family, len, res)         a maximal-nesting input: totality*)
(*   errmsg     (e, text)                  Display of an error value       *)
(*              (diagnostic only: never rejects)                            *)
(*   context_map (slot, entries, res, post) the context_map! macros          *)
(*   evaltree   (slot, tree, mode, res, post, log) an evaluation of a tree  *)
(*              recorded by the hooks of /repo while its own test suite ran *)
(*              (harness convert); user functions are oracles: log carries  *)
(*              their results                                               *)
(* A trace is accepted iff every event is matched: the POSTCONDITION       *)
(* compares the number of consumed events with the length of the trace and *)
(* prints the first unmatched event otherwise.                             *)
(***************************************************************************)
EXTENDS Api, Messages
Rec == ndJsonDeserialize(IOEnv.TRACE)
VARIABLES l, ctxs, log

Absent == [kind |-> "Absent", vars |-> EmptyMap, funcs |-> EmptyMap, nb |-> FALSE]
Slots == 0..3
Init == l = 1 /\ ctxs = [s \in Slots |-> Absent] /\ log = <<>> /\ TLCSet(1, 1) /\ TLCSet(2, [s \in Slots |-> Absent])

E == Rec[l]
IsEvent(name) == l <= Len(Rec) /\ Rec[l].ev = name /\ l' = l + 1

\* ---- comparing recorded observations with the specification's
ErrMatches(want, got, exact) ==
  IF exact THEN /\ got.e = want.e /\ SameValue(got.a, want.a) /\ SameValue(got.b, want.b)
                /\ (want.e \in {"WrongTypeCombination", "WrongFunctionArgumentAmount", "UnmatchedPartialToken"} \/ got.n = want.n)
                /\ got.x = want.x /\ got.y = want.y /\ got.ts = want.ts
  ELSE ErrClass(got) = ErrClass(want)
ResMatches(pat, r, exact) ==
  CASE pat.p = "any" -> r.p # "panic"
    [] pat.p = "anyerr" -> r.p = "err"
    [] pat.p = "val" -> r.p = "val" /\ SameValue(pat.v, r.v)
    [] pat.p = "err" -> r.p = "err" /\ ErrMatches(pat.e, r.e, exact)
ResIn(pats, r, exact) == \E pat \in pats : ResMatches(pat, r, exact)

RECURSIVE SameTree(_, _)
SameTree(a, b) ==      \* a: specification tree, b: recorded (normalised) tree
  /\ a.o = b.o /\ Len(a.k) = Len(b.k)
  /\ (a.o = "Const" => SameValue(a.v, b.v))
  /\ (a.o \in {"Read", "Write", "Call"} => a.n = b.n)
  /\ \A i \in 1..Len(a.k) : SameTree(a.k[i], b.k[i])

SameVars(c, j) ==       \* j: recorded projection [nb, vars: seq of [n, v], funcs: seq of names]
  /\ c.nb = j.nb
  /\ DOMAIN c.vars = {j.vars[i].n : i \in 1..Len(j.vars)}
  /\ \A i, k \in 1..Len(j.vars) : j.vars[i].n = j.vars[k].n => i = k          \* "exactly the bound names": none listed twice
  /\ \A i \in 1..Len(j.vars) : SameValue(c.vars[j.vars[i].n], j.vars[i].v)
  /\ DOMAIN c.funcs = {j.funcs[i] : i \in 1..Len(j.funcs)}
SameLog(lg, j) == /\ Len(lg) = Len(j)
                  /\ \A i \in 1..Len(j) : lg[i].n = j[i].n /\ SameValue(lg[i].a, j[i].a)

\* ---- one action per kind of public call
EvCtx == /\ IsEvent("ctx")
         /\ ctxs' = [ctxs EXCEPT ![E.slot] = CtxOfTrace(E.ctx)]
         /\ log' = <<>>

EvBuild ==
  /\ IsEvent("build")
  /\ LET b == Build(E.src) IN
     /\ CASE b.class = "WF" /\ ~b.open -> E.res.p = "val" /\ SameTree(b.tree, E.tree)
          [] b.class = "LEXERR" -> E.res.p = "err"
          [] b.class = "IF" -> E.res.p = "err" \/ E.deficient          \* rejected now, or by every evaluation
          [] OTHER -> E.res.p # "panic"
  /\ UNCHANGED <<ctxs, log>>

EvEval ==
  /\ IsEvent("eval")
  /\ LET b == Build(E.src)
         out == EvalCall(b, E.ek, E.mode, St(ctxs[E.slot], <<>>)) IN        \* the call log is recorded per call
     /\ (out.st.unc \/ ResIn(out.pats, E.res, FALSE))        \* error variants by class (DESIGN.md section 4.3)
     /\ (out.st.unc => PrintT(<<"INCONCLUSIVE", l, "more than one documented outcome">>))
     /\ (b.class = "WF" /\ ~b.open /\ "tree" \in DOMAIN E => SameTree(b.tree, E.tree))
     /\ IF out.det /\ ~out.st.unc
        THEN /\ (E.mode # "fresh" => SameVars(out.st.ctx, E.post))
             \* calls issued from several threads share one call log: it cannot be attributed to a single call
             /\ (E.mode # "fresh" /\ "nolog" \notin DOMAIN E => SameLog(out.st.log, E.log))
             /\ ctxs' = [ctxs EXCEPT ![E.slot] = out.st.ctx] /\ log' = <<>>
        \* the documentation does not determine the state after this call: continue from the recorded one
        ELSE /\ ctxs' = [ctxs EXCEPT ![E.slot] = [@ EXCEPT !.vars = VarsOfSeq(E.post.vars), !.nb = E.post.nb]]
             /\ log' = <<>>

EvSetValue ==
  /\ IsEvent("set_value")
  /\ LET r == SetValue(ctxs[E.slot], E.n, E.v) IN
     /\ ResMatches(IF r.ok THEN PatVal(VEmpty) ELSE PatErr(r.e), E.res, TRUE)
     /\ SameVars(r.ctx, E.post)
     /\ ctxs' = [ctxs EXCEPT ![E.slot] = r.ctx]
  /\ UNCHANGED log

EvGetValue ==
  /\ IsEvent("get_value")
  /\ LET c == ctxs[E.slot] IN
     IF E.n \in DOMAIN c.vars THEN E.res.p = "val" /\ SameValue(c.vars[E.n], E.res.v) ELSE E.res.p = "none"
  /\ UNCHANGED <<ctxs, log>>

\* a 4096-character input of maximal nesting went through every stage: totality only
EvDeep == /\ IsEvent("deep") /\ E.res.p \in {"val", "err"} /\ UNCHANGED <<ctxs, log>>

\* the Display text of an error value (independent of how the error arose)
\* No property fixes the wording of messages, so a difference is reported as a diagnostic line (DESIGN.md rule 4.5) and
\* the event is consumed: it never rejects a trace.
EvErrMsg == /\ IsEvent("errmsg")
            /\ (Modelled(E.e) /\ ErrorMessage(E.e) # E.text => PrintT(<<"MESSAGE-DRIFT", l, ErrorMessage(E.e), E.text>>))
            /\ UNCHANGED <<ctxs, log>>

\* the context_map! / math_consts_context! macros: every entry is applied in order (set_value / set_function), the result is
\* the first error; entries: sequence of [k: name, f: BOOLEAN (a function), v: value]
RECURSIVE ApplyEntries(_, _, _, _)
ApplyEntries(c, es, i, firstErr) ==
  IF i > Len(es) THEN [ctx |-> c, err |-> firstErr]
  ELSE IF es[i].f THEN ApplyEntries(SetFunction(c, es[i].k, BehConst(es[i].v)), es, i + 1, firstErr)
  ELSE LET r == SetValue(c, es[i].k, es[i].v) IN
       ApplyEntries(r.ctx, es, i + 1, IF firstErr.e = "" /\ ~r.ok THEN r.e ELSE firstErr)
EvContextMap ==
  /\ IsEvent("context_map")
  /\ LET r == ApplyEntries(NewHashMap, E.entries, 1, NoErr) IN
     /\ ResMatches(IF r.err.e = "" THEN PatVal(VEmpty) ELSE PatErr(r.err), E.res, TRUE)
     \* the creating form `context_map! { .. }` hands the context out only on success (`lost`: nothing to compare)
     /\ IF "lost" \in DOMAIN E
        THEN r.err.e # "" /\ ctxs' = [ctxs EXCEPT ![E.slot] = Absent]
        ELSE SameVars(r.ctx, E.post) /\ ctxs' = [ctxs EXCEPT ![E.slot] = r.ctx]
  /\ UNCHANGED log

\* ---- executions of /repo's own tests (hook traces): a tree, the context before (event ctx), the user-function
\* calls with their results.  The specification evaluates the tree itself; the recorded calls answer the user
\* functions (OracleResult) and must be exactly the calls the specification makes, in its order.
OracleOf(r) == IF r.p = "val" THEN Ok(r.v) ELSE Er(r.e)
WithOracle(c, lg) ==
  [c EXCEPT !.funcs = [n \in DOMAIN c.funcs |->
     IF c.funcs[n].b = "oracle"
     THEN LET idx == SelectSeq([i \in 1..Len(lg) |-> i], LAMBDA i : lg[i].n = n) IN
          BehOracle([j \in 1..Len(idx) |-> [a |-> lg[idx[j]].a, r |-> OracleOf(lg[idx[j]].r)]])
     ELSE c.funcs[n]]]
RECURSIVE Evaluable(_)
Evaluable(t) ==       \* every node has its operator's number of operands (tree/mod.rs never checks this before evaluation)
  /\ t.o # "Root"
  /\ (t.o \in BinNodes => Len(t.k) = 2)
  /\ (t.o \in {"Neg", "Not", "Call"} => Len(t.k) = 1)
  /\ (t.o \in {"Const", "Read", "Write", "Empty"} => Len(t.k) = 0)
  /\ (t.o = "Chain" => Len(t.k) > 0)
  /\ \A i \in 1..Len(t.k) : Evaluable(t.k[i])
RECURSIVE CalledNames(_)
CalledNames(t) == (IF t.o = "Call" THEN {t.n} ELSE {}) \cup UNION {CalledNames(t.k[i]) : i \in 1..Len(t.k)}
UnknownCalls(t, c) == IF c.nb THEN {} ELSE {n \in CalledNames(t) : n \notin DOMAIN c.funcs /\ ~IsBuiltinName(n)}
EvEvalTree ==
  /\ IsEvent("evaltree")
  /\ LET c == WithOracle(ctxs[E.slot], E.log) IN
     IF Evaluable(E.tree) /\ UnknownCalls(E.tree, c) = {}
     THEN LET x == Eval(E.tree, St(c, <<>>), E.mode) IN
          IF x.st.unc
          \* the documentation allows more than one outcome somewhere inside this evaluation: nothing is concluded
          THEN /\ PrintT(<<"INCONCLUSIVE", l, "more than one documented outcome">>)
               /\ E.res.p # "panic"
               /\ ctxs' = [ctxs EXCEPT ![E.slot] = [@ EXCEPT !.vars = VarsOfSeq(E.post.vars), !.nb = E.post.nb]]
          ELSE /\ ResMatches(PatOf(x.r), E.res, FALSE)
               /\ SameVars(x.st.ctx, E.post)
               /\ SameLog(x.st.log, E.log)
               /\ ctxs' = [ctxs EXCEPT ![E.slot] = x.st.ctx]
     \* a function that is neither in the context nor a builtin this specification knows: a builtin added to the crate
     \* after the specification was written looks exactly like this; resolution is decided by MC_Resolve, not here
     ELSE IF Evaluable(E.tree)
     THEN /\ PrintT(<<"INCONCLUSIVE", l, "function unknown to the specification", UnknownCalls(E.tree, c)>>)
          /\ E.res.p # "panic"
          /\ ctxs' = [ctxs EXCEPT ![E.slot] = [@ EXCEPT !.vars = VarsOfSeq(E.post.vars), !.nb = E.post.nb]]
     \* an operator without its operands: every evaluation fails (C13); which error is not fixed
     ELSE /\ (E.deficient => E.res.p = "err")
          /\ E.res.p # "panic"
          /\ ctxs' = [ctxs EXCEPT ![E.slot] = [@ EXCEPT !.vars = VarsOfSeq(E.post.vars), !.nb = E.post.nb]]
  /\ log' = <<>>

Simple(name, F(_)) ==
  /\ IsEvent(name)
  /\ SameVars(F(ctxs[E.slot]), E.post)
  /\ ctxs' = [ctxs EXCEPT ![E.slot] = F(ctxs[E.slot])]
  /\ UNCHANGED log
EvClearVariables == Simple("clear_variables", ClearVariables)
EvClearFunctions == Simple("clear_functions", ClearFunctions)
EvClear == Simple("clear", ClearAll)
EvSetFunction ==
  /\ IsEvent("set_function")
  /\ LET c == SetFunction(ctxs[E.slot], E.n, Beh(E.b, E.v)) IN
     /\ SameVars(c, E.post) /\ ctxs' = [ctxs EXCEPT ![E.slot] = c]
  /\ UNCHANGED log
EvSetBuiltins ==
  /\ IsEvent("set_builtins")
  /\ LET r == SetBuiltinsDisabled(ctxs[E.slot], E.d) IN
     /\ E.res.p = (IF r.ok THEN "val" ELSE "err")
     /\ SameVars(r.ctx, E.post) /\ ctxs' = [ctxs EXCEPT ![E.slot] = r.ctx]
  /\ UNCHANGED log
EvClone ==
  /\ IsEvent("clone")
  /\ SameVars(ctxs[E.slot], E.post)                                   \* the clone equals the original
  /\ ctxs' = [ctxs EXCEPT ![E.to] = ctxs[E.slot]]
  /\ UNCHANGED log

\* the state after the last matched event is also kept in a TLC register, so that the diagnosis of a rejection can
\* show what the specification would have allowed
Track == TLCSet(1, l') /\ TLCSet(2, ctxs')          \* evaluated last: only when every conjunct of the event held
Next == (EvCtx \/ EvEvalTree \/ EvDeep \/ EvErrMsg \/ EvContextMap \/ EvBuild \/ EvEval \/ EvSetValue \/ EvGetValue \/ EvClearVariables \/ EvClearFunctions \/ EvClear
        \/ EvSetFunction \/ EvSetBuiltins \/ EvClone) /\ Track

\* reached position (register 1) = number of events + 1  <=>  every event was matched
Accepted ==
  LET reached == IF Len(Rec) = 0 THEN 1 ELSE TLCGet(1) IN
  IF reached = Len(Rec) + 1 THEN TRUE
  ELSE /\ PrintT(<<"UNMATCHED", reached>>)
       /\ PrintT(ToJson([unmatched |-> reached, event |-> Rec[reached]]))
       /\ (Rec[reached].ev = "eval" /\ reached > 1 =>
             LET cs == TLCGet(2)
                 ev == Rec[reached]
                 out == EvalCall(Build(ev.src), ev.ek, ev.mode, St(cs[ev.slot], <<>>)) IN
             /\ PrintT(<<"SPEC-ALLOWS", Build(ev.src).class, out.pats, out.det, out.st>>)
             /\ PrintT(<<"CONJUNCTS", "result", ResIn(out.pats, ev.res, FALSE),
                         "tree", ("tree" \in DOMAIN ev /\ Build(ev.src).class = "WF") => SameTree(Build(ev.src).tree, ev.tree),
                         "context", out.det => SameVars(out.st.ctx, ev.post), "log", out.det => SameLog(out.st.log, ev.log)>>))
       /\ FALSE
=============================================================================
