--------------------------------- MODULE Api ---------------------------------
(***************************************************************************)
(* The public API of evalexpr as a state machine.                          *)
(*                                                                         *)
(* State: ctxs (slot -> context; a slot is one context object owned by     *)
(* the user) and log (ordered user-function calls).  Every public call is  *)
(* atomic (its linearisation point is its return), so one call = one step: *)
(*     Step(state, call) = [st |-> state', obs |-> what the caller sees]   *)
(* Model instances (MC_*.tla) enumerate calls and emit (call, obs) pairs   *)
(* as implementation tests; trace specifications (Trace_*.tla) replay the  *)
(* calls recorded from the real crate and require the recorded             *)
(* observation to be the one Step allows.                                  *)
(*                                                                         *)
(* The 24 string-level and 24 tree-level evaluation entry points are       *)
(* projections of one core evaluator (Core + ProjectKind).                 *)
(***************************************************************************)
EXTENDS Eval, Lexer

(***************************************************************************)
(* Precompilation: text -> tokens -> classified tree.                      *)
(***************************************************************************)
Build(src) ==
  LET lx == Lex(src) IN
  IF ~lx.ok THEN [class |-> "LEXERR", tree |-> NEmpty, err |-> lx.err, open |-> FALSE]
  ELSE LET c == Classify(lx.toks) IN
       \* `open`: the documentation does not fix the meaning of this input (only totality is claimed)
       [class |-> c.class, tree |-> c.tree, err |-> "", open |-> lx.kf1 \/ lx.unclaimed \/ c.class = "UNSPEC"]
BuildToks(ts) ==
  LET c == Classify(ts) IN [class |-> c.class, tree |-> c.tree, err |-> "", open |-> c.class = "UNSPEC"]

(***************************************************************************)
(* Outcome patterns shared with the harness.                               *)
(***************************************************************************)
PatVal(v) == [p |-> "val", v |-> v, e |-> NoErr]
PatErr(e) == [p |-> "err", v |-> VEmpty, e |-> e]            \* this error (class or exact, see `exact` of the case)
PatAnyErr == [p |-> "anyerr", v |-> VEmpty, e |-> NoErr]     \* some error
PatAny == [p |-> "any", v |-> VEmpty, e |-> NoErr]           \* any outcome that returns normally
PatOf(r) == IF r.ok THEN PatVal(r.v) ELSE PatErr(r.e)

(***************************************************************************)
(* Typed entry points: the untyped result projected to the type.           *)
(***************************************************************************)
EntryKinds == {"value", "string", "int", "float", "number", "boolean", "tuple", "empty"}
EntryModes == {"fresh", "imm", "mut"}
ProjectKind(kind, r) ==
  IF ~r.ok THEN r                                                \* evaluation errors pass through unchanged
  ELSE CASE kind = "value" -> r
         [] kind = "string" -> IF r.v.t = "String" THEN r ELSE Er(ExpectedString(r.v))
         [] kind = "int" -> IF r.v.t = "Int" THEN r ELSE Er(ExpectedInt(r.v))
         [] kind = "float" -> IF r.v.t = "Float" THEN r ELSE Er(ExpectedFloat(r.v))
         [] kind = "number" -> IF r.v.t = "Int" THEN Ok(VFloat(IntToFloat(r.v.i)))
                               ELSE IF r.v.t = "Float" THEN r ELSE Er(ExpectedNumber(r.v))
         [] kind = "boolean" -> IF r.v.t = "Boolean" THEN r ELSE Er(ExpectedBoolean(r.v))
         [] kind = "tuple" -> IF r.v.t = "Tuple" THEN r ELSE Er(ExpectedTuple(r.v))
         [] kind = "empty" -> IF r.v.t = "Empty" THEN r ELSE Er(ExpectedEmpty(r.v))

\* the core evaluator on a well-formed tree: [r, st]
Core(mode, tree, st) ==
  CASE mode = "fresh" -> LET x == Eval(tree, St(NewHashMap, st.log), "mut") IN Res(x.r, [st EXCEPT !.unc = x.st.unc])   \* context discarded
    [] mode = "imm" -> Eval(tree, st, "imm")
    [] mode = "mut" -> Eval(tree, st, "mut")

(***************************************************************************)
(* One evaluation call.  b is a Build / BuildToks result.                  *)
(* Returns [pats, st, det]: the allowed outcome patterns, the state after  *)
(* the call and whether state / log are determined (det).                  *)
(***************************************************************************)
EvalCall(b, kind, mode, st) ==
  IF b.class = "WF" /\ ~b.open
  THEN LET x == Core(mode, b.tree, st) IN [pats |-> {PatOf(ProjectKind(kind, x.r))}, st |-> x.st, det |-> TRUE]
  ELSE IF b.class \in {"LEXERR", "IF"}
  THEN [pats |-> {PatAnyErr}, st |-> st, det |-> b.class = "LEXERR"]   \* rejected: at precompilation or by every evaluation
  ELSE [pats |-> {PatAny}, st |-> st, det |-> FALSE]

(***************************************************************************)
(* JSON projections for emitted cases.                                     *)
(***************************************************************************)
CtxJson(c) == [kind |-> c.kind, nb |-> c.nb,
               vars |-> {[n |-> n, v |-> JVal(c.vars[n])] : n \in DOMAIN c.vars},
               funcs |-> {[n |-> n, b |-> c.funcs[n].b, v |-> JVal(c.funcs[n].v)] : n \in DOMAIN c.funcs}]
JPat(p) == IF p.p = "val" THEN [p |-> "val", v |-> JVal(p.v)]
           ELSE IF p.p = "err" THEN [p |-> "err", e |-> JErr(p.e)] ELSE [p |-> p.p]
JPats(ps) == {JPat(p) : p \in ps}
JLog(log) == [i \in 1..Len(log) |-> [n |-> log[i].n, a |-> JVal(log[i].a)]]
\* the inverse, for contexts read from a trace: sequences of [n, v] / [n, b, v] records
VarsOfSeq(s) == [n \in {s[i].n : i \in 1..Len(s)} |-> s[CHOOSE i \in 1..Len(s) : s[i].n = n].v]
FuncsOfSeq(s) == [n \in {s[i].n : i \in 1..Len(s)} |-> LET r == s[CHOOSE i \in 1..Len(s) : s[i].n = n] IN Beh(r.b, r.v)]
CtxOfTrace(j) == [kind |-> j.kind, nb |-> j.nb, vars |-> VarsOfSeq(j.vars), funcs |-> FuncsOfSeq(j.funcs)]
=============================================================================
