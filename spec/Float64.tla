------------------------------ MODULE Float64 ------------------------------
(***************************************************************************)
(* IEEE-754 doubles as the tuple <<w3, w2, w1, w0>> of 16-bit words, most  *)
(* significant first (so the JSON encoding shows the usual hex digits).    *)
(* What the specification decides on the bits itself: classification,      *)
(* ordering and equality, negation, absolute value, and the exact          *)
(* round-to-nearest-even conversion from a 64-bit integer.  Arithmetic,    *)
(* libm functions, formatting and parsing are environment primitives       *)
(* (Prim.tla): the specification decides which primitive is applied to     *)
(* which operands and trusts the hardware for its value.                   *)
(***************************************************************************)
EXTENDS Int64

SignBit(f) == f[1] \div 32768
ExpBits(f) == (f[1] % 32768) \div 16
MantZero(f) == (f[1] % 16 = 0) /\ f[2] = 0 /\ f[3] = 0 /\ f[4] = 0
IsFloatShape(f) == Len(f) = 4 /\ \A i \in 1..4 : f[i] \in 0..65535

IsNaN(f) == ExpBits(f) = 2047 /\ ~MantZero(f)
IsInf(f) == ExpBits(f) = 2047 /\ MantZero(f)
IsFZero(f) == ExpBits(f) = 0 /\ MantZero(f)
IsSubnormal(f) == ExpBits(f) = 0 /\ ~MantZero(f)
IsNormal(f) == ExpBits(f) \in 1..2046
IsFinite(f) == ExpBits(f) # 2047

FNeg(f) == <<(f[1] + 32768) % 65536, f[2], f[3], f[4]>>
FAbs(f) == <<f[1] % 32768, f[2], f[3], f[4]>>

PosZero == <<0, 0, 0, 0>>
NegZero == <<32768, 0, 0, 0>>
PosInf == <<32752, 0, 0, 0>>
NegInf == <<65520, 0, 0, 0>>
QNaN == <<32760, 0, 0, 0>>
FOne == <<16368, 0, 0, 0>>

RECURSIVE WordsCmpAt(_, _, _)
WordsCmpAt(x, y, i) == IF i > 4 THEN 0
                       ELSE IF x[i] < y[i] THEN -1 ELSE IF x[i] > y[i] THEN 1
                       ELSE WordsCmpAt(x, y, i + 1)
\* numeric order of two non-NaN doubles: -1, 0, 1 (the two zeros are equal)
FCmp(x, y) ==
  IF IsFZero(x) /\ IsFZero(y) THEN 0
  ELSE IF SignBit(x) # SignBit(y) THEN (IF SignBit(x) = 1 THEN -1 ELSE 1)
  ELSE IF SignBit(x) = 0 THEN WordsCmpAt(x, y, 1) ELSE WordsCmpAt(y, x, 1)
Unordered(x, y) == IsNaN(x) \/ IsNaN(y)
FEq(x, y) == ~Unordered(x, y) /\ FCmp(x, y) = 0
FLt(x, y) == ~Unordered(x, y) /\ FCmp(x, y) < 0
FLe(x, y) == ~Unordered(x, y) /\ FCmp(x, y) <= 0
FGt(x, y) == FLt(y, x)
FGe(x, y) == FLe(y, x)

(***************************************************************************)
(* i64 -> f64, round to nearest, ties to even (Rust's `as f64`).           *)
(***************************************************************************)
RECURSIVE TopBit(_, _)
TopBit(bits, k) == IF k = 0 THEN 0 ELSE IF bits[k] = 1 THEN k ELSE TopBit(bits, k - 1)
RECURSIVE AnyBelow(_, _)
AnyBelow(bits, k) == IF k < 1 THEN FALSE ELSE bits[k] = 1 \/ AnyBelow(bits, k - 1)
RECURSIVE IncBits(_, _, _)
IncBits(q, k, n) ==                 \* add one to an n-bit little-endian number; [q, carry]
  IF k > n THEN [q |-> q, c |-> 1]
  ELSE IF q[k] = 0 THEN [q |-> [q EXCEPT ![k] = 1], c |-> 0]
  ELSE IncBits([q EXCEPT ![k] = 0], k + 1, n)
WordOf(bits, w) ==                  \* bits is a 64-element little-endian sequence; w = 0 is the lowest word
  LET RECURSIVE Acc(_, _)
      Acc(j, s) == IF j > 14 THEN s + bits[16 * w + 16] * 32768
                   ELSE Acc(j + 1, s + bits[16 * w + j + 1] * Pow2[j + 1])
  IN Acc(0, 0)
IntToFloat(a) ==
  IF a = Zero THEN PosZero
  ELSE
    LET bits == MagToBits(Mag(a))
        L == TopBit(bits, 64)                                     \* bit length, 1..64
        \* the top 53 bits, little endian: q[j+1] is bit (L - 53 + j) of the magnitude
        q0 == [j \in 1..53 |-> IF L - 53 + j >= 1 THEN bits[L - 53 + j] ELSE 0]
        guard == IF L >= 54 THEN bits[L - 53] ELSE 0
        sticky == IF L >= 55 THEN AnyBelow(bits, L - 54) ELSE FALSE
        up == guard = 1 /\ (sticky \/ q0[1] = 1)
        inc == IF up THEN IncBits(q0, 1, 53) ELSE [q |-> q0, c |-> 0]
        q == IF inc.c = 1 THEN [j \in 1..53 |-> IF j = 53 THEN 1 ELSE 0] ELSE inc.q
        e == 1023 + (L - 1) + inc.c                                \* biased exponent
        all == [k \in 1..64 |-> IF k <= 52 THEN q[k]
                                ELSE IF k <= 63 THEN (e \div Pow2[k - 52]) % 2
                                ELSE Sign(a)]
    IN <<WordOf(all, 3), WordOf(all, 2), WordOf(all, 1), WordOf(all, 0)>>

\* a double that is an exactly representable integer below 2^63 in magnitude, back to Int64 (used by laws only)
=============================================================================
