----------------------------- MODULE Tokenizer -----------------------------
(***************************************************************************)
(* The crate's tokenizer as it is written (src/token/mod.rs), transcribed: *)
(* a two-pass machine.                                                     *)
(*                                                                         *)
(*   pass 1  str_to_partial_tokens: one partial token per character; a run *)
(*           of "other" characters is merged into one Literal; a string    *)
(*           literal is scanned at once (parse_string_literal); after a    *)
(*           `/`, try_skip_comment looks one character ahead and a skipped *)
(*           comment leaves a Whitespace partial token;                    *)
(*   pass 2  partial_tokens_to_tokens: a window of three partial tokens    *)
(*           (first, second, third) and a cutoff of 1, 2 or 3: `X` `=`     *)
(*           becomes the compound token, `&` `&` [`=`], `|` `|` [`=`], a   *)
(*           lone `&` or `|` is UnmatchedPartialToken, Whitespace yields   *)
(*           nothing, a Literal is tried as integer (parse_dec_or_hex),    *)
(*           float (f64::from_str), boolean, then - with a `+`/`-` second  *)
(*           and ANY third partial token - the concatenation of the three  *)
(*           Display texts as a float (cutoff 3), else an identifier.      *)
(*                                                                         *)
(* Lexer.tla is the normative, documentation-shaped lexer; this module is  *)
(* the implementation-shaped one.  Refinement theorem (checked by TLC on   *)
(* every string MC_Tokenizer enumerates): with RustWords = FALSE the       *)
(* machine produces exactly Lex's tokens or exactly Lex's error; with      *)
(* RustWords = TRUE (float = whatever f64::from_str accepts, i.e. also     *)
(* inf / infinity / nan in any letter case - the crate as it is, KF-1) it  *)
(* differs from Lex only on inputs Lex flags `kf1`.                        *)
(*                                                                         *)
(* Composed with TreeBuilder.tla (ImplBuild) it predicts the exact outcome *)
(* of build_operator_tree for a source TEXT - tree or error variant - and  *)
(* MC_Tokenizer replays that against the real crate as a diagnostic.       *)
(***************************************************************************)
EXTENDS Lexer
CONSTANT RustWords

\* ---- partial tokens
PT(p) == [p |-> p, t |-> TOp("+"), w |-> <<>>]
PTok(t) == [p |-> "Token", t |-> t, w |-> <<>>]
PLit(w) == [p |-> "Literal", t |-> TOp("+"), w |-> w]
PNone == PT("None")                                   \* beyond the end of the window
CharToPartial(c) ==
  CASE c = PLUS -> PT("Plus") [] c = MINUS -> PT("Minus") [] c = STAR -> PT("Star") [] c = SLASH -> PT("Slash")
    [] c = PCT -> PT("Percent") [] c = HAT -> PT("Hat")
    [] c = LPAR -> PTok(TOp("(")) [] c = RPAR -> PTok(TOp(")")) [] c = COMMA -> PTok(TOp(",")) [] c = SEMI -> PTok(TOp(";"))
    [] c = EQ -> PT("Eq") [] c = BANG -> PT("ExclamationMark") [] c = GT -> PT("Gt") [] c = LT -> PT("Lt")
    [] c = AMP -> PT("Ampersand") [] c = BAR -> PT("VerticalBar")
    [] OTHER -> IF c \in WhiteSpace THEN PT("Whitespace") ELSE PLit(<<c>>)
\* Display of a partial token (used by the three-piece join)
PartialText(pt) ==
  CASE pt.p = "Token" -> pt.t.x [] pt.p = "Literal" -> pt.w
    [] pt.p = "Plus" -> <<PLUS>> [] pt.p = "Minus" -> <<MINUS>> [] pt.p = "Star" -> <<STAR>> [] pt.p = "Slash" -> <<SLASH>>
    [] pt.p = "Percent" -> <<PCT>> [] pt.p = "Hat" -> <<HAT>> [] pt.p = "Whitespace" -> <<32>> [] pt.p = "Eq" -> <<EQ>>
    [] pt.p = "ExclamationMark" -> <<BANG>> [] pt.p = "Gt" -> <<GT>> [] pt.p = "Lt" -> <<LT>>
    [] pt.p = "Ampersand" -> <<AMP>> [] pt.p = "VerticalBar" -> <<BAR>>

TFail(e) == [ok |-> FALSE, toks |-> <<>>, pts |-> <<>>, err |-> e]

\* ---- try_skip_comment: p is the position after the `/`; [ok, matched, pos]
RECURSIVE LineLoop(_, _), BlockLoop(_, _)
LineLoop(s, i) == IF i > Len(s) THEN i ELSE IF s[i] = NL THEN i + 1 ELSE LineLoop(s, i + 1)       \* `for c in iter { if c == '\n' { break } }`
BlockLoop(s, i) ==                                     \* `while let Some(c) = iter.next() { if let Some(next) = iter.peek() { .. } }`
  IF i > Len(s) THEN 0
  ELSE IF i + 1 <= Len(s) /\ s[i] = STAR /\ s[i + 1] = SLASH THEN i + 2
  ELSE BlockLoop(s, i + 1)
TrySkipComment(s, p) ==
  IF CharAt(s, p) = SLASH THEN [ok |-> TRUE, matched |-> TRUE, pos |-> LineLoop(s, p + 1)]
  ELSE IF CharAt(s, p) = STAR
       THEN LET q == BlockLoop(s, p + 1) IN
            IF q = 0 THEN [ok |-> FALSE, matched |-> FALSE, pos |-> p] ELSE [ok |-> TRUE, matched |-> TRUE, pos |-> q]
  ELSE [ok |-> TRUE, matched |-> FALSE, pos |-> p]

\* ---- pass 1
PushPartial(out, pt) ==
  IF pt.p = "Literal" /\ Len(out) > 0 /\ out[Len(out)].p = "Literal"
  THEN [out EXCEPT ![Len(out)] = PLit(out[Len(out)].w \o pt.w)]
  ELSE Append(out, pt)
RECURSIVE Partials(_, _, _)
Partials(s, p, out) ==
  IF p > Len(s) THEN [ok |-> TRUE, toks |-> <<>>, pts |-> out, err |-> ""]
  ELSE IF s[p] = QUOTE THEN
       LET r == ScanStr(s, p + 1, <<>>) IN
       IF r.ok THEN Partials(s, r.pos, Append(out, PTok(TLit(VStr(r.txt), SubSeq(s, p, r.pos - 1))))) ELSE TFail(r.err)
  ELSE LET pt == CharToPartial(s[p]) IN
       IF pt.p = "Slash"
       THEN LET k == TrySkipComment(s, p + 1) IN
            IF ~k.ok THEN TFail("UnterminatedComment")
            ELSE IF k.matched THEN Partials(s, k.pos, Append(out, PT("Whitespace")))
            ELSE Partials(s, p + 1, PushPartial(out, pt))
       ELSE Partials(s, p + 1, PushPartial(out, pt))

\* ---- pass 2
RustFloat(w) == IsFloatText(w) \/ (RustWords /\ IsRustFloatWord(w))
\* parse_dec_or_hex: strip_prefix("0x") then from_str_radix(.., 16), else i64::from_str
IntLiteral(w) ==
  IF Len(w) >= 2 /\ w[1] = 48 /\ w[2] = 120
  THEN (IF LooksHex(w) THEN HexValue(w) ELSE [ok |-> FALSE, v |-> Zero])
  ELSE (IF LooksDec(w) THEN DecValue(w) ELSE [ok |-> FALSE, v |-> Zero])
WithEq(p) == CASE p = "Plus" -> "+=" [] p = "Minus" -> "-=" [] p = "Star" -> "*=" [] p = "Slash" -> "/=" [] p = "Percent" -> "%="
               [] p = "Hat" -> "^=" [] p = "Eq" -> "==" [] p = "ExclamationMark" -> "!=" [] p = "Gt" -> ">=" [] p = "Lt" -> "<="
Plain(p) == CASE p = "Plus" -> "+" [] p = "Minus" -> "-" [] p = "Star" -> "*" [] p = "Slash" -> "/" [] p = "Percent" -> "%"
              [] p = "Hat" -> "^" [] p = "Eq" -> "=" [] p = "ExclamationMark" -> "!" [] p = "Gt" -> ">" [] p = "Lt" -> "<"
RECURSIVE Resolve(_, _, _)
Resolve(pts, i, out) ==
  IF i > Len(pts) THEN [ok |-> TRUE, toks |-> out, pts |-> pts, err |-> ""]
  ELSE LET first == pts[i]
           second == IF i + 1 <= Len(pts) THEN pts[i + 1] ELSE PNone
           third == IF i + 2 <= Len(pts) THEN pts[i + 2] ELSE PNone
       IN
       CASE first.p = "Token" -> Resolve(pts, i + 1, Append(out, first.t))
         [] first.p = "Whitespace" -> Resolve(pts, i + 1, out)
         [] first.p \in {"Plus", "Minus", "Star", "Slash", "Percent", "Hat", "Eq", "ExclamationMark", "Gt", "Lt"} ->
              IF second.p = "Eq" THEN Resolve(pts, i + 2, Append(out, TOp(WithEq(first.p))))
              ELSE Resolve(pts, i + 1, Append(out, TOp(Plain(first.p))))
         [] first.p \in {"Ampersand", "VerticalBar"} ->
              IF second.p = first.p
              THEN (IF third.p = "Eq" THEN Resolve(pts, i + 3, Append(out, TOp(IF first.p = "Ampersand" THEN "&&=" ELSE "||=")))
                    ELSE Resolve(pts, i + 2, Append(out, TOp(IF first.p = "Ampersand" THEN "&&" ELSE "||"))))
              ELSE TFail("UnmatchedPartialToken")
         [] first.p = "Literal" ->
              LET w == first.w
                  int == IntLiteral(w)
              IN IF int.ok THEN Resolve(pts, i + 1, Append(out, TLit(VInt(int.v), w)))
                 ELSE IF RustFloat(w) THEN Resolve(pts, i + 1, Append(out, TLit(VFloat(ParseFloatWord(w)), w)))
                 ELSE IF w = TrueText THEN Resolve(pts, i + 1, Append(out, TLit(VBool(TRUE), w)))
                 ELSE IF w = FalseText THEN Resolve(pts, i + 1, Append(out, TLit(VBool(FALSE), w)))
                 ELSE IF second.p \in {"Plus", "Minus"} /\ third.p # "None"
                      THEN LET j == w \o PartialText(second) \o PartialText(third) IN
                           IF RustFloat(j) THEN Resolve(pts, i + 3, Append(out, TLit(VFloat(ParseFloatWord(j)), j)))
                           ELSE Resolve(pts, i + 1, Append(out, TId(w)))
                 ELSE Resolve(pts, i + 1, Append(out, TId(w)))

Tokenize(s) ==
  LET p1 == Partials(s, 1, <<>>) IN
  IF ~p1.ok THEN p1 ELSE Resolve(p1.pts, 1, <<>>)

\* ---- refinement: the two-pass machine computes the normative lexer
\* the kinds of lexical error some suffix of s exhibits (over-approximation used only to bound tz.err)
LexErrorsOf(s) == {"UnmatchedDoubleQuote", "IllegalEscapeSequence", "UnterminatedComment", "UnmatchedPartialToken"}
                  \cap ({Lex(s).err} \cup {Lex(SubSeq(s, i, Len(s))).err : i \in 2..Len(s)}
                        \cup (IF \E i \in 1..Len(s) : s[i] = QUOTE THEN {"UnmatchedDoubleQuote", "IllegalEscapeSequence"} ELSE {}))
TokRefines(s) ==
  LET lx == Lex(s)
      tz == Tokenize(s) IN
  (~RustWords \/ ~(lx.ok /\ lx.kf1)) =>
     /\ tz.ok = lx.ok
     /\ (lx.ok => tz.toks = lx.toks)
     \* which of two lexical errors is reported depends on the pass structure (`& "` : Lex meets the lone & first, the
     \* machine scans the unterminated string in pass 1); with a single kind of error present they agree
     /\ (~lx.ok => tz.err \in LexErrorsOf(s))
\* with RustWords the only difference is that words Lex makes identifiers (flagging kf1) are float literals
TokDeviationIsKF1(s) ==
  LET lx == Lex(s)
      tz == Tokenize(s) IN
  (RustWords /\ lx.ok /\ lx.kf1) =>
     /\ tz.ok /\ Len(tz.toks) = Len(lx.toks)
     /\ \A i \in 1..Len(lx.toks) :
          \/ tz.toks[i] = lx.toks[i]
          \/ (lx.toks[i].k = "id" /\ IsRustFloatWord(lx.toks[i].n) /\ tz.toks[i].k = "lit" /\ tz.toks[i].v.t = "Float")
=============================================================================
