--------------------------- MODULE MC_TreeBuilder ---------------------------
(***************************************************************************)
(* Checks that the implementation-shaped stack machine of TreeBuilder.tla  *)
(* refines the grammar on every token sequence up to MaxLen, and emits the *)
(* machine's exact outcome (tree or error variant) for every sequence as a *)
(* diagnostic conformance case against the real tree builder.              *)
(***************************************************************************)
EXTENDS TreeBuilder
CONSTANTS MaxLen, AlphaName
VARIABLE toks

One == TLit(VNat(1), <<49>>)
X == TId(<<120>>)
F == TId(<<102>>)
Ops(S) == {TOp(o) : o \in S}
Alphabet ==
  CASE AlphaName = "core" -> {One, X, F} \cup Ops({"-", "!", "^", "*", "+", "<", "=", "+=", "(", ")", ",", ";"})
    [] AlphaName = "seq" -> {One, X} \cup Ops({"(", ")", ",", ";", "="})
Init == toks = <<>>
Next == Len(toks) < MaxLen /\ \E t \in Alphabet : toks' = Append(toks, t)

\* with Repaired = TRUE this must hold everywhere; with FALSE, TLC's counterexample is one of the defects D1-D3
SpecTheorems == Refines(toks)

Blt == ImplBuild(toks)
Emit == PrintT(ToJson([kind |-> "impl", check |-> "impl_model", toks |-> TokTexts(toks), ok |-> Blt.ok,
                       tree |-> IF Blt.ok THEN JTree(NormRoot(Blt.tree)) ELSE JTree(NEmpty), err |-> Blt.err,
                       disp |-> IF Blt.ok THEN DisplayTree(Blt.tree) ELSE <<>>]))
=============================================================================
