"""One function per property: which models, which bounds per tier, which harness checks decide it."""
import os

import vf

PANIC = {"panic"}


REPOTESTS_NOTE = ("executions of /repo's own test suite recorded by the guarded hooks (src/verif.rs): every precompilation and "
                  "every top-level evaluation the tests perform, user closures as oracles")


def repo_tests(chk, quick=False):
    """code -> spec with the repository's own tests as the driver (hooks on); quick=False: thorough tier only."""
    if chk.tier == "quick" and not quick:
        return
    chk.add_repo_tests("trace_repotests")


def traces(chk, gen, check, quick=(4, 600), thorough=(16, 3000), note=None):
    """code -> spec: seeded random executions of the real crate validated against Trace_Api.tla."""
    count, n = quick if chk.tier == "quick" else thorough
    return chk.add_traces(f"trace_{gen}", gen, n, count, check, note=note, timeout=2400)


FLOATPROGS_NOTE = ("random programs of NESTED float and mixed int/float arithmetic (+ - * / % ^, unary minus, comparisons, && ||, "
                   "floor ceil round math::sqrt abs exp ln cbrt, min max math::pow hypot atan2, if, all seven arithmetic assignment forms on float and int "
                   "variables, chains) on a context that persists across programs; the operand pairs of the inner operations "
                   "are listed by a shadow walk of the generator's own AST and tabulated by primgen; result, type and context "
                   "afterwards must be the specification's")


def float_programs(chk, quick=(3, 400), thorough=(12, 1500)):
    count, n = quick if chk.tier == "quick" else thorough
    return chk.add_traces("trace_floatprogs", "floatprogs", n, count, "trace_floatprogs", note=FLOATPROGS_NOTE, timeout=2400)


def tokens(chk, alpha, maxlen, relevant, nontrivial, workers=12, timeout=1500):
    tag = f"tokens_{alpha}{maxlen}"
    info, summ = vf.run_model(tag, "MC_Tokens.tla", {"MaxLen": maxlen, "AlphaName": alpha}, chk.outdir,
                              workers=workers, timeout=timeout)
    chk.add_model(info, summ, relevant, nontrivial, must_occur=["class_WF", "class_IF"],
                  note=f"all token sequences of length <= {maxlen} over the '{alpha}' alphabet of MC_Tokens.tla")
    return info, summ


# --------------------------------------------------------------------------------------------------
def diagnostic_treebuilder(chk, maxlen):
    """Implementation-shaped builder model against the real builder: exact outcomes incl. error variants (rule 4.5: reported
    in the evidence as a diagnostic, never part of the verdict)."""
    try:
        info, summ = vf.run_model(f"diag_treebuilder{maxlen}", "MC_TreeBuilder.tla",
                                  {"MaxLen": maxlen, "AlphaName": "core", "Repaired": True}, chk.outdir, workers=16)
        chk.extra["diagnostic_treebuilder_model"] = {"sequences": info["distinct"], "exact_outcomes_replayed": summ["cases"],
                                                     "deviations_from_the_builder_model": summ["failure_count"],
                                                     "note": "TreeBuilder.tla refines Grammar.tla on every sequence (TLC invariant); "
                                                             "deviations here would mean the builder was refactored, not that a property fails"}
        vf.log(f"[diagnostic] builder model: {summ['cases']} exact outcomes, {summ['failure_count']} deviations (not part of the verdict)")
    except vf.ToolError as e:
        chk.extra["diagnostic_treebuilder_model"] = {"error": str(e)[:300]}
        vf.log(f"[diagnostic] builder model not evaluated: {str(e)[:200]}")


def diagnostic_script(chk, name, *args):
    """Runs `bin/diag <name>` and stores what it printed in the evidence (rule 4.5: never part of the verdict)."""
    import subprocess
    try:
        r = subprocess.run([os.path.join(vf.ROOT, "bin", "diag"), name] + [str(a) for a in args], stdout=subprocess.PIPE,
                           stderr=subprocess.STDOUT, text=True, timeout=3000)
        lines = [l for l in r.stdout.splitlines() if not l.startswith("[")]
        chk.extra[f"diagnostic_{name}"] = {"exit": r.returncode, "output": lines[-12:]}
        vf.log(f"[diagnostic] {name}: " + (lines[-1][:200] if lines else "no output") + " (not part of the verdict)")
    except Exception as e:  # a diagnostic never breaks a check
        chk.extra[f"diagnostic_{name}"] = {"error": str(e)[:300]}


def c13(chk):
    chk.rule = ("every token sequence up to the length bound over the named alphabets is classified by Grammar.tla; "
                "non-trivial = distinct sequences of class IF (not derivable: unbalanced, missing operand, juxtaposition)")
    rel = {"if_accepted", "if_evaluates", "unbalanced_accepted", "balanced_reported_unbalanced", "panic"}
    if chk.tier == "quick":
        tokens(chk, "core", 5, rel, ["if"])
        # the enumerated sequence as an argument of the builtin `if` in the branch that is NOT selected (MC_Tokens.tla)
        tokens(chk, "ifthen", 4, rel, ["if"])
        tokens(chk, "ifelse", 4, rel, ["if"])
    else:
        tokens(chk, "ifthen", 5, rel, ["if"], workers=16)
        tokens(chk, "ifelse", 5, rel, ["if"], workers=16)
        tokens(chk, "core", 6, rel, ["if"], workers=16, timeout=3000)
        tokens(chk, "wide", 5, rel, ["if"], workers=16)
        tokens(chk, "call", 6, rel, ["if"], workers=16)
        tokens(chk, "assign", 5, rel, ["if"], workers=16)
        diagnostic_treebuilder(chk, 5)
    # source TEXTS: a sign glued to a number (`+5` has no left operand), parentheses and escaped quotes inside string
    # literals (text, not structure), stray quotes and comment openers
    wl = 3 if chk.tier == "quick" else 4
    prims = vf.make_prims("lexwords", chk.outdir, extra={"words": lex_word_candidates(wl)})
    for fam, n in (("words", wl), ("raw", wl + 1), ("strparen", 5 if chk.tier == "quick" else 6)):
        info, summ = vf.run_model(f"lex_{fam}{n}", "MC_Lex.tla", {"Family": fam, "MaxLen": n}, chk.outdir,
                                  workers=12 if chk.tier == "quick" else 16, env_extra={"PRIMS": prims}, timeout=3000)
        chk.add_model(info, summ, rel, [], note=f"MC_Lex.tla family {fam} up to length {n}: ill-formed texts are rejected, balanced ones "
                                                 "are never reported as unbalanced")
    traces(chk, "fuzz", "trace_fuzz", quick=(4, 2000), thorough=(16, 20000),
           note="random strings of up to 40 characters over lexer-relevant fragments: the specification classifies each "
                "(lexical error / not derivable / well-formed / unspecified) and the recorded precompilation outcome must agree")
    repo_tests(chk)


def c05(chk):
    chk.rule = ("every token sequence up to the length bound over the sequence alphabets {1 x ( ) , ;} (+ = + +=); "
                "non-trivial = distinct well-formed sequences that contain both ',' and ';'")
    rel = {"wf_tree", "seq_value", "panic", "balanced_reported_unbalanced", "unbalanced_accepted"}
    if chk.tier == "quick":
        tokens(chk, "seq", 7, rel, ["wf_comma_and_semicolon"])
        tokens(chk, "seqas", 5, rel, ["wf_comma_and_semicolon"])
    else:
        tokens(chk, "seq", 9, rel, ["wf_comma_and_semicolon"], workers=16, timeout=3000)
        tokens(chk, "seqas", 7, rel, ["wf_comma_and_semicolon"], workers=16, timeout=3000)
    traces(chk, "programs", "trace_programs",
           note="random programs with nested tuples / chains / assignments, random redundant parentheses and separators: "
                "recorded tree, value, context and call log must be the specification's")
    repo_tests(chk)


def ast_model(chk, siblings, workers=12, relevant=("wf_tree", "panic"), nontrivial=("wf_len3",)):
    info, summ = vf.run_model(f"ast_{siblings}", "MC_Ast.tla", {"Siblings": siblings}, chk.outdir, workers=workers, timeout=3000)
    chk.add_model(info, summ, set(relevant), list(nontrivial),
                  note=f"MC_Ast.tla: ASTs of depth <= 2 over all 25 operators and application (siblings: {siblings}) x 3 renderings")


def c02(chk):
    chk.rule = ("token sequences over the operator alphabets, classified WF by Grammar.tla; "
                "non-trivial = distinct well-formed sequences of at least three tokens")
    rel = {"wf_tree", "panic"}
    if chk.tier == "quick":
        ast_model(chk, "mid")
        ast_model(chk, "cater")
        tokens(chk, "ops", 4, rel, ["wf_len3"])
        tokens(chk, "core", 4, rel, ["wf_len3"])
    else:
        ast_model(chk, "all", workers=16)
        ast_model(chk, "cater", workers=16)
        tokens(chk, "ops", 5, rel, ["wf_len3"], workers=16)
        tokens(chk, "core", 6, rel, ["wf_len3"], workers=16, timeout=3000)
        tokens(chk, "assign", 5, rel, ["wf_len3"], workers=16)
    # source texts in which a sign is glued to a word (-w, +w, -w^2, w-w, ...): which pieces are operators and how they nest
    # (class WFU: for a decimal word beyond i64 only the SHAPE of the tree is claimed)
    wl = 3 if chk.tier == "quick" else 5
    prims = vf.make_prims("lexwords", chk.outdir, extra={"words": lex_word_candidates(wl)})
    info, summ = vf.run_model(f"lex_words{wl}", "MC_Lex.tla", {"Family": "words", "MaxLen": wl}, chk.outdir,
                              workers=12 if chk.tier == "quick" else 16, env_extra={"PRIMS": prims}, timeout=3000)
    chk.add_model(info, summ, {"wfu_shape", "panic"}, ["wfu"], note=f"MC_Lex.tla words up to length {wl} x 12 embeddings: tree shapes")
    traces(chk, "programs", "trace_programs",
           note="random ASTs to depth 5 rendered with required + random redundant parentheses; the specification re-parses the "
                "recorded source and the recorded tree must equal its tree")


def c14(chk):
    chk.rule = ("well-formed token sequences with their identifier-occurrence list computed by Grammar.Occurrences; "
                "non-trivial = distinct well-formed sequences that contain at least one identifier")
    rel = {"occ", "panic"}
    if chk.tier == "quick":
        tokens(chk, "core", 4, rel, ["wf_with_identifiers"])
        tokens(chk, "call", 5, rel, ["wf_with_identifiers"])
        tokens(chk, "idents", 5, rel, ["wf_with_identifiers"])
        # occurrences below parentheses: assignments, calls and prefix operators nested under every operator (depth-2 ASTs)
        ast_model(chk, "few", relevant=rel, nontrivial=("wf_with_identifiers",))
    else:
        ast_model(chk, "all", workers=16, relevant=rel, nontrivial=("wf_with_identifiers",))
        ast_model(chk, "cater", workers=16, relevant=rel, nontrivial=("wf_with_identifiers",))
        tokens(chk, "core", 6, rel, ["wf_with_identifiers"], workers=16, timeout=3000)
        tokens(chk, "call", 6, rel, ["wf_with_identifiers"], workers=16)
        tokens(chk, "idents", 6, rel, ["wf_with_identifiers"], workers=16)
        tokens(chk, "seqas", 7, rel, ["wf_with_identifiers"], workers=16, timeout=3000)


def c01(chk):
    chk.rule = ("every enumerated input is run through all 48 entry points on 4 contexts plus Display/Debug; "
                "non-trivial = distinct inputs (all classes)")
    chk.assumptions.append("4096-character maximal-nesting inputs run on an 8 MiB stack (the default main-thread stack); the README "
                           "tells users to bound input length because parsing and evaluation recurse")
    quick = chk.tier == "quick"
    pool = "quick" if quick else "full"
    if quick:
        tokens(chk, "core", 5, PANIC, ["if", "wf", "unspec"])
    else:
        tokens(chk, "core", 6, PANIC, ["if", "wf", "unspec"], workers=16, timeout=3000)
        tokens(chk, "wide", 5, PANIC, ["if", "wf", "unspec"], workers=16)
    # every builtin x every argument shape, in the dev profile (overflow checks on) and, thorough, in the release profile
    prims = vf.make_prims("builtins", chk.outdir, pool=pool)
    for release in ((False,) if quick else (False, True)):
        info, summ = vf.run_model(f"builtins_{pool}_{'release' if release else 'dev'}", "MC_Builtins.tla", {"PoolName": pool},
                                  chk.outdir, workers=12 if quick else 16, env_extra={"PRIMS": prims}, timeout=3000,
                                  harness=vf.build_harness(release=release))
        chk.add_model(info, summ, PANIC, ["builtin_nontrivial"],
                      note=f"49 builtins x argument shapes, harness built in the {'release' if release else 'dev'} profile")
    prims = vf.make_prims("ops", chk.outdir, pool=pool)
    info, summ = vf.run_model("ops_" + pool, "MC_Ops.tla", {"PoolName": pool}, chk.outdir, workers=12 if quick else 16,
                              env_extra={"PRIMS": prims})
    chk.add_model(info, summ, PANIC, ["op_nontrivial"], note="16 operators x pool^2 (overflow corners such as MIN % -1, MIN / -1, -MIN)")
    # lexical corners: every short word alone and embedded plus the special words (i64 / hex boundaries, extreme exponents),
    # string bodies with escapes and non-ASCII characters, raw texts with stray quotes, lone & and |, comment openers
    wl = 3 if quick else 5
    prims = vf.make_prims("lexwords", chk.outdir, extra={"words": lex_word_candidates(wl)})
    for fam in ("words", "strings", "raw"):
        info, summ = vf.run_model(f"lex_{fam}{wl}", "MC_Lex.tla", {"Family": fam, "MaxLen": wl}, chk.outdir,
                                  workers=12 if quick else 16, env_extra={"PRIMS": prims}, timeout=3000)
        chk.add_model(info, summ, PANIC, [], note=f"MC_Lex.tla family {fam} up to length {wl}: all entry points, no panic")
    if not quick:
        ctx_model(chk, "small", PANIC, workers=16)
    chk.add_traces("trace_deep", "deep", 1, 1 if quick else 3, "deep",
                   note="4096-character inputs of maximal nesting (parentheses, prefix operators, application, assignment, "
                        "sum and power chains, tuples, chains, long literals and comments, random fragments)")
    traces(chk, "fuzz", "trace_fuzz", quick=(4, 2000), thorough=(16, 20000),
           note="random strings: a recorded panic matches no action of the specification")


def c03(chk):
    chk.rule = ("every operator x every ordered pair of pool values (boundary values of all six types), operands bound "
                "as variables and, where literals exist, as literals; non-trivial = distinct cases whose reference "
                "outcome is a value or an arithmetic error (not a type error)")
    chk.trusted.append("IEEE-754 hardware arithmetic and libm through primgen (a program that does not link evalexpr)")
    pool = "quick" if chk.tier == "quick" else "full"
    prims = vf.make_prims("ops", chk.outdir, pool=pool)
    info, summ = vf.run_model("ops_" + pool, "MC_Ops.tla", {"PoolName": pool}, chk.outdir,
                              workers=12 if chk.tier == "quick" else 16, env_extra={"PRIMS": prims})
    chk.add_model(info, summ, {"op", "panic"}, ["op_nontrivial"],
                  note=f"16 operators x pool^2 ('{pool}' pool of Pools.tla)")
    traces(chk, "ops", "trace_ops", quick=(4, 2500), thorough=(16, 12000),
           note="random operand pairs: full-range i64 (recomputed on limbs by Int64.tla), random bit-pattern doubles from a "
                "per-trace pool (primitives by primgen), strings, booleans, tuples")
    float_programs(chk)
    repo_tests(chk)


def c10(chk):
    chk.rule = ("49 builtin names x {no argument, every pool value, every ordered pair of the pair pool, triples of the triple "
                "pool, a 4-tuple}; non-trivial = distinct calls whose reference outcome is a value")
    chk.trusted.append("IEEE-754 hardware arithmetic, libm and Rust's float formatting / case mapping through primgen")
    chk.assumptions.append(f"len and str::substring index in {vf.len_unit()} (probed; only their consistency is claimed)")
    pool = "quick" if chk.tier == "quick" else "full"
    prims = vf.make_prims("builtins", chk.outdir, pool=pool)
    info, summ = vf.run_model("builtins_" + pool, "MC_Builtins.tla", {"PoolName": pool}, chk.outdir,
                              workers=12 if chk.tier == "quick" else 16, env_extra={"PRIMS": prims}, timeout=3000)
    chk.add_model(info, summ, {"builtin", "panic"}, ["builtin_nontrivial"],
                  note=f"49 builtins x argument shapes of arity 0..4 over the '{pool}' pools of Pools.tla")
    traces(chk, "builtins", "trace_builtins", quick=(4, 2000), thorough=(16, 10000),
           note="random calls of the 49 builtins: full-range integers, random bit-pattern doubles from a per-trace pool, random "
                "Unicode strings and byte indices, nested tuples; undocumented corners (NaN in min/max, shift amounts outside "
                "0..63, empty-valued needles) are not generated")
    repo_tests(chk)


CTX_FLOATS = [[16368, 0, 0, 0], [16384, 0, 0, 0], [16376, 0, 0, 0], [16388, 0, 0, 0], [0, 0, 0, 0], [32768, 0, 0, 0]]
CTX_PROPS = ("TypeStable", "FailedCallAtomic", "CloneIndependent", "NamespacesSeparate")


def ctx_model(chk, size, relevant, simulate=None, workers=12, timeout=1500):
    prims = vf.make_prims("ctx", chk.outdir, extra={"floats": CTX_FLOATS})
    tag = f"ctx_{size}" + ("_sim" if simulate else "")
    info, summ = vf.run_model(tag, "MC_Ctx.tla", {"Size": size, "WithSerde": False}, chk.outdir,
                              invariants=("TypeOK",), properties=CTX_PROPS, view="View", constraint="InDomain",
                              workers=workers, timeout=timeout, env_extra={"PRIMS": prims}, simulate=simulate)
    ops = ["set_value", "eval", "get_value", "clear_variables", "clear_functions", "clear", "set_function", "set_builtins"]
    if size not in ("names2", "zeros"):
        ops.append("clone")
    chk.add_model(info, summ, relevant, ["history_len2"], exhaustive=simulate is None,
                  must_occur=[f"history_last_{o}" for o in ops],
                  note=f"MC_Ctx.tla size={size}: all reachable abstract context states x all operations"
                       + (f"; random walks {simulate}" if simulate else ""))


def c04(chk):
    chk.rule = ("every transition of the abstract context state graph (two slots, clone, every operation incl. the nine "
                "assignment operators x every value type) with a shortest history reaching its source state; "
                "non-trivial = distinct histories of at least two operations")
    if chk.tier == "quick":
        ctx_model(chk, "small", {"history", "panic"})
        ctx_model(chk, "names2", {"history", "panic"})
        ctx_model(chk, "zeros", {"history", "panic"})
    else:
        ctx_model(chk, "small", {"history", "panic"}, workers=16)
        ctx_model(chk, "names2", {"history", "panic"}, workers=16, timeout=3000)
        ctx_model(chk, "zeros", {"history", "panic"}, workers=16)
    chk.add_traces("trace_bigctx", "bigctx", 1, 1, "trace_bigctx",
                   note="one context with 70-110 variables and as many functions (capacity thresholds), the switch, clears in three orders")
    chk.add_traces("trace_macros", "macros", 1, 1, "trace_macros",
                   note="the context_map! and math_consts_context! macros (six invocations: every value kind, functions, repeated keys, "
                        "a type conflict in the middle, the empty map): every entry is applied in order, the first error is returned")
    traces(chk, "histories", "trace_histories", quick=(4, 1500), thorough=(16, 8000),
           note="random histories of 200 operations over 12 names and two slots with full-range values; the abstract contexts "
                "are carried along by Trace_Api.tla and every recorded projection must equal them")
    float_programs(chk, quick=(2, 300), thorough=(6, 1500))
    repo_tests(chk)


def _float_words(x):
    import struct
    b = struct.unpack(">Q", struct.pack(">d", x))[0]
    return [(b >> 48) & 0xffff, (b >> 32) & 0xffff, (b >> 16) & 0xffff, b & 0xffff]


# the doubles the small programs of MC_Prog / MC_Resolve / MC_Ctx can compute: every multiple of 0.5 in [-8, 20]
# (integer atoms 0, 1, 2, 7 and the literal 1.5 under + * ^ / with at most four atoms), closed enough for depth 3
PROG_FLOATS = [_float_words(k / 2.0) for k in range(-16, 41)] + [_float_words(x) for x in (0.25, 0.125, 27.0, 49.0, 64.0, 81.0, 256.0)]


def prog_model(chk, family, depth, relevant, nontrivial, workers=12, timeout=1500):
    prims = vf.make_prims("prog", chk.outdir, extra={"floats": PROG_FLOATS})
    tag = f"prog_{family}{depth}"
    info, summ = vf.run_model(tag, "MC_Prog.tla", {"Family": family, "Depth": depth}, chk.outdir, workers=workers,
                              timeout=timeout, env_extra={"PRIMS": prims})
    chk.add_model(info, summ, relevant, nontrivial,
                  note=f"MC_Prog.tla family={family}: programs of up to {depth + 1} atoms x initial contexts")


def c08(chk):
    chk.rule = ("programs of up to three (thorough: four) atoms from {x = 1, x += 1, x, undefined, 1, \"s\", true, 1/0, f(2), "
                "fail(1), g(x)} combined by + && || == , ; - ! and call nesting, from three initial contexts; "
                "non-trivial = distinct (program, context) cases")
    prog_model(chk, "order", 2, {"order", "panic"}, ["order_nontrivial"],
               workers=12 if chk.tier == "quick" else 16, timeout=3000)
    if chk.tier != "quick":
        prog_model(chk, "deep", 3, {"order", "panic"}, ["order_nontrivial"], workers=16, timeout=3000)
    traces(chk, "programs", "trace_programs",
           note="random programs of up to ~30 atoms with assignments and recording user functions, evaluated on a context that "
                "persists across programs: result, context and ordered call log must be the specification's")
    float_programs(chk, quick=(2, 300), thorough=(8, 1500))
    repo_tests(chk, quick=True)


def c11(chk):
    chk.rule = ("the programs of C08 plus all nine assignment operators, each evaluated through the immutable and the mutable "
                "entry point on {HashMapContext x3, a read-only context, EmptyContext, EmptyContextWithBuiltinFunctions}; "
                "non-trivial = distinct (program, context, mode) cases")
    prog_model(chk, "imm", 1 if chk.tier == "quick" else 2, {"imm", "panic"}, ["imm_nontrivial"],
               workers=12 if chk.tier == "quick" else 16, timeout=3000)
    traces(chk, "programs", "trace_programs",
           note="random programs through random entry points (20% immutable) on a context that persists across programs")


def c12(chk):
    chk.rule = ("programs of one or two (thorough: three) atoms covering every result type and error kind x three contexts x "
                "all 48 entry points (24 string-level, 24 tree-level); non-trivial = distinct (program, context, entry point)")
    prog_model(chk, "entry", 1, {"entry", "panic"}, ["entry_nontrivial"], workers=12 if chk.tier == "quick" else 16, timeout=3000)
    if chk.tier != "quick":
        prog_model(chk, "entrydeep", 2, {"entry", "panic"}, ["entry_nontrivial"], workers=16, timeout=3000)
    # ill-formed and unspecified inputs as well: precompilation errors are returned unchanged, string = tree level
    tokens(chk, "core", 4 if chk.tier == "quick" else 5, {"entry_consistency", "panic"}, ["if", "unspec"])
    # source TEXTS (not token sequences): a typed string-level entry point must not read the text in its own way
    # (signs glued to numbers, blanks at either end, boundary literals)
    wl = 3 if chk.tier == "quick" else 4
    prims = vf.make_prims("lexwords", chk.outdir, extra={"words": lex_word_candidates(wl)})
    for fam in ("words", "raw"):
        info, summ = vf.run_model(f"lex_{fam}{wl}", "MC_Lex.tla", {"Family": fam, "MaxLen": wl}, chk.outdir,
                                  workers=12 if chk.tier == "quick" else 16, env_extra={"PRIMS": prims}, timeout=3000)
        chk.add_model(info, summ, {"entry_consistency", "panic"}, [],
                      note=f"MC_Lex.tla family {fam} up to length {wl}: string level = tree level for every entry point")
    traces(chk, "programs", "trace_programs",
           note="random programs, each through a random one of the 48 entry points (string / tree level, eight result kinds, "
                "fresh / shared / mutable context)")
    if chk.tier != "quick":
        diagnostic_script(chk, "cli", 3)
    repo_tests(chk)


def c09(chk):
    chk.rule = ("the complete matrix: 51 names x {EmptyContext, EmptyContextWithBuiltinFunctions, HashMapContext with builtins "
                "on/off x user function absent / 4 behaviours x variable of the same name absent/bound} x 5 call forms; "
                "plus the context histories of MC_Ctx (clone, clear_functions, toggling) which call f(2) and max(1, 2); "
                "non-trivial = distinct cases")
    prims = vf.make_prims("resolve", chk.outdir, extra={"floats": PROG_FLOATS})
    info, summ = vf.run_model("resolve", "MC_Resolve.tla", {}, chk.outdir, env_extra={"PRIMS": prims})
    chk.add_model(info, summ, {"resolve", "panic"}, ["resolve_nontrivial"], note="MC_Resolve.tla: the complete configuration matrix")
    ctx_model(chk, "small", {"history", "panic"}, workers=12 if chk.tier == "quick" else 16)
    ctx_model(chk, "zeros", {"history", "panic"}, workers=12 if chk.tier == "quick" else 16)      # a user function named `max`, re-bound and cleared; trees reused
    traces(chk, "histories", "trace_histories", quick=(4, 1500), thorough=(16, 8000),
           note="200-step histories over 12 names and the function names f, v0, max on two slots; a few precompiled trees "
                "(`max(1, 2)`, `f(2)`, `v0(3)`, ...) are evaluated again and again while functions are bound, re-bound and cleared")
    chk.add_traces("trace_bigctx", "bigctx", 1, 1, "trace_bigctx",
                   note="one context with 70-110 variables and as many functions, among them `max` and `len`: the switch and the clears")
    repo_tests(chk)


WORD_CHARS = [48, 49, 57, 97, 101, 69, 120, 102, 46, 95]


def lex_word_candidates(maxlen):
    """Candidate float words for MC_Lex family "words": every source string of the model and every run of its
    '+'/'-'-delimited segments.  An over-approximation of what the lexer of the specification can ask for; primgen keeps
    those that Rust parses as a double.  (Mirrors the generator `Sources` of MC_Lex.tla, not the lexer.)"""
    import itertools
    import re
    ok = re.compile(r"^[0-9.eE+-]*[0-9][0-9.eE+-]*$")
    cands = set()
    chars = [chr(c) for c in WORD_CHARS]
    special = ['inf', 'Inf', 'INF', 'infinity', 'Infinity', 'nan', 'NaN', 'NAN', 'true', 'false', 'True', 'FALSE', '0x7fffffffffffffff', '0x8000000000000000', '0xffffffffffffffffff', '9223372036854775807', '9223372036854775808', '99999999999999999999', '0X1f', '1_000', '0x', '0xg', '1e400', '1e-400', '4.9e-324', '1.7976931348623157e308', '0.1', '00012', '0x00ff', '1e5', '1E5', '1.e5', '.5e1', '5.', 'inf1', 'nanx', 'infinit']
    for s in itertools.chain(special, ("".join(t) for n in range(1, maxlen + 1) for t in itertools.product(chars, repeat=n))):
        if True:
            for src in (s, s + "-" + s, s + "+" + s, "a-" + s, s + "e-3", "0x" + s, s + "-1", s + "+9", "-" + s, "+" + s, "-" + s + "^2"):
                if not ok.match(src):
                    continue
                segs = re.split(r"([+-])", src)
                for i in range(0, len(segs), 2):
                    for j in range(i, len(segs), 2):
                        w = "".join(segs[i:j + 1])
                        if ok.match(w):
                            cands.add(w)
    return [[ord(c) for c in w] for w in sorted(cands)]


def c06(chk):
    chk.rule = ("every word over {0 1 9 a e E x f . _} up to the length bound, alone and embedded (w-w, w+w, a-w, we-3, 0xw, "
                "'w 1', w-1, w+9), and every string body over {a \" \\ / * newline space + a-umlaut emoji} quoted with and without "
                "escaping; non-trivial = distinct sources the specification classifies as well-formed")
    chk.trusted.append("Rust's f64::from_str for the value of a float-looking word (primgen); the specification decides "
                       "segmentation and classification")
    wl, sl = (5, 5) if chk.tier == "quick" else (6, 6)
    prims = vf.make_prims("lexwords", chk.outdir, extra={"words": lex_word_candidates(wl)})
    info, summ = vf.run_model(f"lex_words{wl}", "MC_Lex.tla", {"Family": "words", "MaxLen": wl}, chk.outdir,
                              workers=12 if chk.tier == "quick" else 16, env_extra={"PRIMS": prims}, timeout=3000)
    chk.add_model(info, summ, {"literal", "wfu_shape", "panic"}, ["wf"], note=f"MC_Lex.tla words up to length {wl} x 12 embeddings")
    info, summ = vf.run_model(f"lex_strings{sl}", "MC_Lex.tla", {"Family": "strings", "MaxLen": sl}, chk.outdir,
                              workers=12 if chk.tier == "quick" else 16, timeout=3000)
    chk.add_model(info, summ, {"literal", "panic"}, ["wf"], note=f"MC_Lex.tla string bodies up to length {sl} x 3 quotings")
    info, summ = vf.run_model(f"lex_strparen{sl}", "MC_Lex.tla", {"Family": "strparen", "MaxLen": sl}, chk.outdir,
                              workers=12 if chk.tier == "quick" else 16, timeout=3000)
    chk.add_model(info, summ, {"literal", "balanced_reported_unbalanced", "panic"}, ["wf"],
                  note=f"MC_Lex.tla string bodies over {{a \" \\ ( )}} up to length {sl}: parentheses inside string literals are text")
    info, summ = vf.run_model(f"lex_raw{sl - 1}", "MC_Lex.tla", {"Family": "raw", "MaxLen": sl - 1}, chk.outdir,
                              workers=12 if chk.tier == "quick" else 16, timeout=3000)
    chk.add_model(info, summ, {"literal", "panic"}, ["wf", "lexerr"], note=f"MC_Lex.tla raw source texts up to length {sl - 1}")
    traces(chk, "literals", "trace_literals", quick=(4, 2500), thorough=(16, 15000),
           note="random integers in [0, 2^63) in decimal / hex, random finite doubles in nine renderings (shortest, e, E, e+, E+, "
                "leading / trailing dot, fixed, Display), random Unicode strings quoted; alone and glued (lit-lit, a-lit, (lit,lit), "
                "x=lit;x); the recorded tree and value must be the specification's")
    if chk.tier != "quick":
        diagnostic_script(chk, "tokenizer", 5)


def c07(chk):
    chk.rule = ("every token sequence up to the length bound over a 15-token alphabet (words, a decimal word beyond i64, a string, the characters of "
                "compound operators, / and *) x every assignment of separators (whitespace characters, block and line "
                "comments, nothing) to the gaps; cases = the admissible assignments (no fusion by the syntactic rule); "
                "non-trivial = distinct (sequence, assignment) pairs")
    import itertools
    pieces = ["1", "3", "x", "2e", "+", "-", "9223372036854775808"]      # fused neighbours of inadmissible assignments also reach the lexer of the spec
    cands = {"".join(t) for n in range(1, 6) for t in itertools.product(pieces, repeat=n)}
    prims = vf.make_prims("sep", chk.outdir, extra={"words": [[ord(c) for c in w] for w in sorted(cands)]})
    if chk.tier == "quick":
        runs = [(3, "small"), (2, "medium")]
    else:
        # generated states = sum over prefixes of |tokens| x |separators|^2 per step: (3, "six") ~ 27 M, (2, "large") ~ 15 M
        runs = [(3, "small"), (3, "six"), (2, "large")]
    for maxlen, sepset in runs:
        info, summ = vf.run_model(f"sep_{maxlen}_{sepset}", "MC_Sep.tla", {"MaxLen": maxlen, "SepSet": sepset}, chk.outdir,
                                  workers=12 if chk.tier == "quick" else 16, env_extra={"PRIMS": prims}, timeout=3000)
        chk.add_model(info, summ, {"separators", "panic"}, ["two_renderings"],
                      note=f"MC_Sep.tla: sequences up to length {maxlen} x separator set '{sepset}'")
    # "an unterminated /* is an error, and comment markers inside string literals are plain text"
    n = 4 if chk.tier == "quick" else 5
    info, summ = vf.run_model(f"lex_raw{n}", "MC_Lex.tla", {"Family": "raw", "MaxLen": n}, chk.outdir,
                              workers=12 if chk.tier == "quick" else 16, timeout=3000)
    chk.add_model(info, summ, {"literal", "panic"}, ["lexerr"], note=f"MC_Lex.tla raw source texts over {{a & | \" \\ space 1 + / *}} up to length {n}")
    info, summ = vf.run_model(f"lex_strings{n}", "MC_Lex.tla", {"Family": "strings", "MaxLen": n}, chk.outdir,
                              workers=12 if chk.tier == "quick" else 16, timeout=3000)
    chk.add_model(info, summ, {"literal", "panic"}, ["wf"], note=f"MC_Lex.tla string bodies containing / * and newlines, up to length {n}")


def c16(chk):
    chk.rule = ("node half: every source of the token / string-body enumerations is deserialised through RON and compared with "
                "build_operator_tree (equal trees / equal messages); context half: MC_Ctx histories with a serialise + "
                "deserialise step after every reachable state, and every pool value bound in a context with a function and "
                "either switch position; non-trivial = distinct sources + distinct histories containing a serde step + values")
    chk.trusted.append("the `ron` 0.8 text format (floats are written in Rust's shortest round-trip form)")
    hbin, diag = vf.build_serde_harness(chk.outdir)
    if hbin is None:
        chk.add_failure({"check": "serde_impls_missing", "detail": "HashMapContext<DefaultNumericTypes> / Value do not implement the "
                         "serde traits with the `serde` feature: the C16 harness does not compile (see the diagnostic)",
                         "case": {"kind": "compile", "diagnostic": diag}, "observed": None, "finding_key": None})
        chk.states = chk.transitions = 1
        chk.samples.append({"kind": "compile", "diagnostic": diag})
        return
    rel = {"serde_node", "serde_context", "panic"}
    quick = chk.tier == "quick"
    info, summ = vf.run_model("serde_tokens", "MC_Tokens.tla", {"MaxLen": 4 if quick else 5, "AlphaName": "core"}, chk.outdir,
                              harness=hbin, workers=8)
    chk.add_model(info, summ, rel, ["node_nontrivial"], note="token sequences (all classes) through ron::from_str::<Node>")
    info, summ = vf.run_model("serde_strings", "MC_Lex.tla", {"Family": "strings", "MaxLen": 4 if quick else 5}, chk.outdir,
                              harness=hbin, workers=8)
    chk.add_model(info, summ, rel, ["node_nontrivial"], note="string bodies with quotes, backslashes, newlines, non-ASCII")
    info, summ = vf.run_model("serde_raw", "MC_Lex.tla", {"Family": "raw", "MaxLen": 4 if quick else 5}, chk.outdir,
                              harness=hbin, workers=8)
    chk.add_model(info, summ, rel, ["node_nontrivial"],
                  note="raw source texts with blanks at either end, lone & and |, stray quotes and backslashes (error messages)")
    prims = vf.make_prims("ctx", chk.outdir, extra={"floats": CTX_FLOATS})
    info, summ = vf.run_model("serde_ctx", "MC_Ctx.tla", {"Size": "small", "WithSerde": True}, chk.outdir, harness=hbin,
                              invariants=("TypeOK",), properties=CTX_PROPS, view="View", constraint="InDomain", workers=12,
                              env_extra={"PRIMS": prims})
    chk.add_model(info, summ, rel, ["history_with_serde"], note="MC_Ctx.tla with the serde round trip as an operation")
    # a user function that SHADOWS A BUILTIN (`max`) next to an ordinary one: "without functions" also means that nothing is
    # left behind under a builtin's name (a stub, a marker) - the probe asks the context for `max` after the round trip
    info, summ = vf.run_model("serde_ctx_zeros", "MC_Ctx.tla", {"Size": "zeros", "WithSerde": True}, chk.outdir, harness=hbin,
                              invariants=("TypeOK",), properties=CTX_PROPS, view="View", constraint="InDomain", workers=12,
                              env_extra={"PRIMS": prims})
    chk.add_model(info, summ, rel, ["history_with_serde"],
                  note="MC_Ctx.tla (signed zeros; user functions f and max, the latter shadowing a builtin) with the serde round trip")
    info, summ = vf.run_model("serde_pool", "MC_SerdePool.tla", {"PoolName": "quick" if quick else "full"}, chk.outdir, harness=hbin,
                              workers=4)
    chk.add_model(info, summ, rel, ["value_nontrivial"], note="every pool value x both switch positions")


def c15(chk):
    chk.rule = ("type level: Send + Sync assertions for the eight public types, decided by the Rust type checker; design level: "
                "Conc.tla, all interleavings of 3 reader threads x 2 evaluations x 3 programs with an exclusive writer; code level: "
                "2-16 real threads sharing Arc'd trees and one context, every distinct (program, entry point, result) validated "
                "against Trace_Api.tla; non-trivial = distinct recorded triples")
    chk.assumptions.append("real schedules are sampled, not enumerated; #![forbid(unsafe_code)] and the type-level half carry "
                           "most of the weight, as the property itself says")
    diag = vf.build_sendsync(chk.outdir)
    if diag:
        chk.add_failure({"check": "send_sync", "detail": "a public type is not Send + Sync: the compile-time assertions of "
                         "rust/sendsync fail (see the diagnostic)", "case": {"kind": "compile", "diagnostic": diag},
                         "observed": None, "finding_key": None})
        chk.states = chk.transitions = 1
        chk.samples.append({"kind": "compile", "diagnostic": diag})
        return
    vf.build_harness()
    quick = chk.tier == "quick"
    prims = vf.make_prims("conc", chk.outdir, extra={"floats": CTX_FLOATS})
    info, summ = vf.run_model("conc", "Conc.tla", {"NThreads": 3, "MaxEvals": 2, "MaxWrites": 1 if quick else 2}, chk.outdir,
                              invariants=("SequentialResults", "StableWhileReading"), properties=("ReadersDoNotMutate",),
                              workers=12 if quick else 16, env_extra={"PRIMS": prims}, timeout=3000)
    chk.add_model(info, summ, {"panic"}, [], note="Conc.tla: every interleaving of the reader threads and the exclusive writer")
    for nthreads in ((2, 8) if quick else (2, 4, 8, 16)):
        ev, rej = chk.add_traces(f"threads{nthreads}", "threads", 60000 if quick else 600000, 2 if quick else 4, "threads",
                                 extra_args=("--threads", str(nthreads)),
                                 note=f"{nthreads} threads, each evaluating a seeded mix of ~50 programs (every family of builtins, the same "
                                      "function on different arguments) through all immutable entry points")
        chk.nontrivial += ev
    chk.samples.append({"kind": "threads", "case": "8 threads x 60000 evaluations of e.g. `f(x) * 2`, `x = 2` (ContextNotMutable), "
                        "`max(x, 3)` on one Arc<HashMapContext>; distinct (program, entry point, result) triples become eval events"})


CHECKS = {"C15": c15, "C16": c16, "C07": c07, "C06": c06, "C09": c09, "C08": c08, "C11": c11, "C12": c12, "C04": c04, "C10": c10, "C03": c03, "C01": c01, "C02": c02, "C05": c05, "C13": c13, "C14": c14}
