"""One function per property: which models, which bounds per tier, which harness checks decide it."""
import os

import vf

PANIC = {"panic"}


def tokens(chk, alpha, maxlen, relevant, nontrivial, workers=12, timeout=1500):
    tag = f"tokens_{alpha}{maxlen}"
    info, summ = vf.run_model(tag, "MC_Tokens.tla", {"MaxLen": maxlen, "AlphaName": alpha}, chk.outdir,
                              workers=workers, timeout=timeout)
    chk.add_model(info, summ, relevant, nontrivial,
                  note=f"all token sequences of length <= {maxlen} over the '{alpha}' alphabet of MC_Tokens.tla")
    return info, summ


# --------------------------------------------------------------------------------------------------
def c13(chk):
    chk.rule = ("every token sequence up to the length bound over the named alphabets is classified by Grammar.tla; "
                "non-trivial = distinct sequences of class IF (not derivable: unbalanced, missing operand, juxtaposition)")
    rel = {"if_accepted", "if_evaluates", "unbalanced_accepted", "balanced_reported_unbalanced", "panic"}
    if chk.tier == "quick":
        tokens(chk, "core", 5, rel, ["if"])
    else:
        tokens(chk, "core", 6, rel, ["if"], workers=16, timeout=3000)
        tokens(chk, "wide", 5, rel, ["if"], workers=16)
        tokens(chk, "call", 6, rel, ["if"], workers=16)
        tokens(chk, "assign", 5, rel, ["if"], workers=16)


def c05(chk):
    chk.rule = ("every token sequence up to the length bound over the sequence alphabets {1 x ( ) , ;} (+ = + +=); "
                "non-trivial = distinct well-formed sequences that contain both ',' and ';'")
    rel = {"wf_tree", "panic", "balanced_reported_unbalanced", "unbalanced_accepted"}
    if chk.tier == "quick":
        tokens(chk, "seq", 7, rel, ["wf_comma_and_semicolon"])
        tokens(chk, "seqas", 5, rel, ["wf_comma_and_semicolon"])
    else:
        tokens(chk, "seq", 9, rel, ["wf_comma_and_semicolon"], workers=16, timeout=3000)
        tokens(chk, "seqas", 7, rel, ["wf_comma_and_semicolon"], workers=16, timeout=3000)


def c02(chk):
    chk.rule = ("token sequences over the operator alphabets, classified WF by Grammar.tla; "
                "non-trivial = distinct well-formed sequences of at least three tokens")
    rel = {"wf_tree", "panic"}
    if chk.tier == "quick":
        tokens(chk, "ops", 4, rel, ["wf_len3"])
        tokens(chk, "core", 4, rel, ["wf_len3"])
    else:
        tokens(chk, "ops", 5, rel, ["wf_len3"], workers=16)
        tokens(chk, "core", 6, rel, ["wf_len3"], workers=16, timeout=3000)
        tokens(chk, "assign", 5, rel, ["wf_len3"], workers=16)


def c14(chk):
    chk.rule = ("well-formed token sequences with their identifier-occurrence list computed by Grammar.Occurrences; "
                "non-trivial = distinct well-formed sequences that contain at least one identifier")
    rel = {"occ", "panic"}
    if chk.tier == "quick":
        tokens(chk, "core", 4, rel, ["wf_with_identifiers"])
        tokens(chk, "call", 5, rel, ["wf_with_identifiers"])
    else:
        tokens(chk, "core", 6, rel, ["wf_with_identifiers"], workers=16, timeout=3000)
        tokens(chk, "call", 6, rel, ["wf_with_identifiers"], workers=16)
        tokens(chk, "seqas", 7, rel, ["wf_with_identifiers"], workers=16, timeout=3000)


def c01(chk):
    chk.rule = ("every enumerated input is run through all 48 entry points on 4 contexts plus Display/Debug; "
                "non-trivial = distinct inputs (all classes)")
    if chk.tier == "quick":
        tokens(chk, "core", 5, PANIC, ["if", "wf", "unspec"])
    else:
        tokens(chk, "core", 6, PANIC, ["if", "wf", "unspec"], workers=16, timeout=3000)
        tokens(chk, "wide", 5, PANIC, ["if", "wf", "unspec"], workers=16)


def c03(chk):
    chk.rule = ("every operator x every ordered pair of pool values (boundary values of all six types), operands bound "
                "as variables and, where literals exist, as literals; non-trivial = distinct cases whose reference "
                "outcome is a value or an arithmetic error (not a type error)")
    chk.trusted.append("IEEE-754 hardware arithmetic and libm through primgen (a program that does not link evalexpr)")
    pool = "quick" if chk.tier == "quick" else "full"
    prims = vf.make_prims("ops", chk.outdir, pool=pool)
    info, summ = vf.run_model("ops_" + pool, "MC_Ops.tla", {"PoolName": pool}, chk.outdir,
                              workers=12 if chk.tier == "quick" else 16, env_extra={"PRIMS": prims})
    chk.add_model(info, summ, {"op", "panic"}, ["op_nontrivial"],
                  note=f"16 operators x pool^2 ('{pool}' pool of Pools.tla)")


CHECKS = {"C03": c03, "C01": c01, "C02": c02, "C05": c05, "C13": c13, "C14": c14}
