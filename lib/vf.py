"""Driver library: builds the harness, runs TLC models piped into the conformance harness,
validates recorded traces, matches failures against KNOWN_FINDINGS.txt, writes replay files and
evidence, and maps everything onto the exit-code contract (0 held / 1 violation / 2 tool error)."""
import json
import os
import re
import shutil
import subprocess
import sys
import time

ROOT = os.path.dirname(os.path.dirname(os.path.abspath(__file__)))
SPEC = os.path.join(ROOT, "spec")
RUST = os.path.join(ROOT, "rust")
OUT = os.path.join(ROOT, "out")
EVID = os.path.join(ROOT, "evidence")
KNOWN = os.path.join(ROOT, "KNOWN_FINDINGS.txt")
TLA_CP = "/opt/veriftools/tla/tla2tools.jar:/opt/veriftools/tla/CommunityModules-deps.jar"


class ToolError(Exception):
    pass


def log(msg):
    print(msg, flush=True)


def seed():
    try:
        return int(os.environ.get("VERIF_SEED", "1"))
    except ValueError:
        return 1


# ------------------------------------------------------------------------------------------------
# builds
# ------------------------------------------------------------------------------------------------
_built = {}


def build_harness(release=False):
    """cargo build of the harness against /repo's current working tree (path dependency)."""
    key = "release" if release else "dev"
    if key in _built:
        return _built[key]
    cmd = ["cargo", "build", "--offline", "-q", "-p", "harness", "-p", "primgen"] + (["--release"] if release else [])
    env = dict(os.environ, CARGO_NET_OFFLINE="true")
    t0 = time.time()
    r = subprocess.run(cmd, cwd=RUST, env=env, stdout=subprocess.PIPE, stderr=subprocess.STDOUT, text=True)
    if r.returncode != 0:
        raise ToolError("cargo build failed:\n" + r.stdout[-4000:])
    path = os.path.join(RUST, "target", "release" if release else "debug", "harness")
    _built[key] = path
    log(f"[build] harness ({key}) ready in {time.time() - t0:.1f}s")
    return path


def build_serde_harness(outdir):
    """The C16 harness is a separate crate built with the repository's pinned toolchain and the crate's `serde` feature.
    Returns (path, None) or (None, diagnostic) when it does not compile because the serde impls are missing."""
    d = os.path.join(ROOT, "harness-serde")
    env = dict(os.environ, CARGO_NET_OFFLINE="true")
    r = subprocess.run(["cargo", "build", "--offline", "-q"], cwd=d, env=env, stdout=subprocess.PIPE, stderr=subprocess.STDOUT, text=True)
    if r.returncode == 0:
        return os.path.join(d, "target", "debug", "harness-serde"), None
    if re.search(r"Serialize|Deserialize|DeserializeOwned", r.stdout) and "evalexpr" in r.stdout:
        os.makedirs(outdir, exist_ok=True)
        path = os.path.join(outdir, "serde-compile-diagnostic.txt")
        with open(path, "w") as f:
            f.write(r.stdout)
        return None, path
    raise ToolError("cargo build of harness-serde failed:\n" + r.stdout[-3000:])


def build_sendsync(outdir):
    """C15 type-level half: compile-time Send + Sync assertions.  Returns None, or the path of the compiler diagnostic."""
    env = dict(os.environ, CARGO_NET_OFFLINE="true")
    r = subprocess.run(["cargo", "build", "--offline", "-q", "-p", "sendsync"], cwd=RUST, env=env, stdout=subprocess.PIPE,
                       stderr=subprocess.STDOUT, text=True)
    if r.returncode == 0:
        return None
    if re.search(r"cannot be (sent|shared) between threads|`Send`|`Sync`", r.stdout):
        os.makedirs(outdir, exist_ok=True)
        path = os.path.join(outdir, "sendsync-compile-diagnostic.txt")
        with open(path, "w") as f:
            f.write(r.stdout)
        return path
    raise ToolError("cargo build of sendsync failed:\n" + r.stdout[-3000:])


def build_primgen81():
    """primgen built with the repository's pinned toolchain (same source): libm results differ between toolchains (cbrt), and the
    executions of /repo's own tests - which cargo builds with the pinned toolchain - are validated against its table."""
    if "primgen81" in _built:
        return _built["primgen81"]
    d = os.path.join(ROOT, "primgen81")
    r = subprocess.run(["cargo", "build", "--offline", "-q"], cwd=d, env=dict(os.environ, CARGO_NET_OFFLINE="true"),
                       stdout=subprocess.PIPE, stderr=subprocess.STDOUT, text=True)
    if r.returncode != 0:
        raise ToolError("cargo build of primgen81 failed:\n" + r.stdout[-3000:])
    _built["primgen81"] = os.path.join(d, "target", "debug", "primgen81")
    return _built["primgen81"]


def primgen_path():
    return os.path.join(RUST, "target", "debug", "primgen")


# ------------------------------------------------------------------------------------------------
# TLC
# ------------------------------------------------------------------------------------------------
def write_cfg(path, constants, invariants=(), properties=(), init="Init", nxt="Next", view=None,
              constraint=None, postcondition=None, spec=None):
    lines = []
    if constants:
        lines.append("CONSTANTS")
        for k, v in constants.items():
            if isinstance(v, str):
                v = '"%s"' % v
            elif isinstance(v, bool):
                v = "TRUE" if v else "FALSE"
            lines.append(f"  {k} = {v}")
    if spec:
        lines.append(f"SPECIFICATION {spec}")
    else:
        lines.append(f"INIT {init}")
        lines.append(f"NEXT {nxt}")
    if invariants:
        lines.append("INVARIANTS " + " ".join(invariants))
    if properties:
        lines.append("PROPERTIES " + " ".join(properties))
    if view:
        lines.append(f"VIEW {view}")
    if constraint:
        lines.append(f"CONSTRAINT {constraint}")
    if postcondition:
        lines.append(f"POSTCONDITION {postcondition}")
    lines.append("CHECK_DEADLOCK FALSE")
    with open(path, "w") as f:
        f.write("\n".join(lines) + "\n")


def tlc_cmd(module, cfg, metadir, workers, extra=(), xmx="12g", xss="256m", deque=False):
    jopts = ["-XX:+UseParallelGC", f"-Xmx{xmx}"]
    if xss:
        jopts.append(f"-Xss{xss}")
    if deque:
        jopts.append("-Dtlc2.tool.queue.IStateQueue=StateDeque")
    return (["java"] + jopts + ["-cp", TLA_CP, "tlc2.TLC", "-workers", str(workers), "-metadir", metadir,
                                "-noGenerateSpecTE", "-config", cfg] + list(extra) + [module])


STATE_RE = re.compile(r"(\d+) states generated, (\d+) distinct states found")


def parse_tlc_log(path):
    """Extracts what TLC said about its own run."""
    info = {"generated": 0, "distinct": 0, "completed": False, "errors": [], "violated": [], "coverage": {}}
    if not os.path.exists(path):
        info["errors"].append("no TLC log")
        return info
    with open(path, errors="replace") as f:
        for line in f:
            m = STATE_RE.search(line)
            if m:
                info["generated"] = int(m.group(1))
                info["distinct"] = int(m.group(2))
            if "Model checking completed. No error has been found." in line:
                info["completed"] = True
            if line.startswith("Error:") or "Exception" in line and "Error" in line:
                info["errors"].append(line.strip())
            m = re.search(r"Invariant (\S+) is violated", line)
            if m:
                info["violated"].append(m.group(1))
            m = re.search(r"Action property (\S+) is violated", line)
            if m:
                info["violated"].append(m.group(1))
            m = re.match(r"<(\w+) line \d+, col \d+ to line \d+, col \d+ of module (\w+)>: (\d+):(\d+)", line)
            if m:
                info["coverage"][m.group(1)] = {"distinct": int(m.group(3)), "generated": int(m.group(4))}
            if "Finished in" in line:
                info["finished"] = line.strip()
    return info


def run_model(tag, module, constants, outdir, invariants=("SpecTheorems", "Emit"), workers=12, timeout=1500,
              harness=None, extra=(), threads=4, view=None, properties=(), constraint=None, simulate=None,
              xss="256m", env_extra=None, max_failures=40):
    """Runs `module` under TLC with stdout piped into `harness replay`.
    Returns (tlc_info, summary).  Raises ToolError on tool trouble or a spec-level invariant failure
    (a defect of the machinery, never reported as a code violation)."""
    os.makedirs(outdir, exist_ok=True)
    cfg = os.path.join(outdir, f"{tag}.cfg")
    write_cfg(cfg, constants, invariants=invariants, view=view, properties=properties, constraint=constraint)
    meta = os.path.join(outdir, f"{tag}.tlc")
    shutil.rmtree(meta, ignore_errors=True)
    tlc_log = os.path.join(outdir, f"{tag}.tlc.log")
    summ = os.path.join(outdir, f"{tag}.summary.json")
    ex = list(extra)
    if simulate:
        ex += ["-simulate", f"num={simulate[0]}", "-depth", str(simulate[1]), "-seed", str(seed())]
        workers = 1
    cmd = tlc_cmd(os.path.join(SPEC, module), cfg, meta, workers, extra=ex, xss=xss)
    hbin = harness or build_harness()
    env = dict(os.environ)
    env.setdefault("PRIMS", empty_prims(outdir))
    env["LENUNIT"] = len_unit()
    if env_extra:
        env.update(env_extra)
    t0 = time.time()
    p1 = subprocess.Popen(["timeout", str(timeout)] + cmd, cwd=SPEC, stdout=subprocess.PIPE, stderr=subprocess.STDOUT, env=env)
    p2 = subprocess.Popen([hbin, "replay", "--out", summ, "--tlc-log", tlc_log, "--threads", str(threads),
                           "--max-failures", str(max_failures)], stdin=p1.stdout, env=env)
    p1.stdout.close()
    rc2 = p2.wait()
    rc1 = p1.wait()
    shutil.rmtree(meta, ignore_errors=True)
    wall = time.time() - t0
    info = parse_tlc_log(tlc_log)
    info["wall_s"] = round(wall, 1)
    info["cmd"] = " ".join(cmd)
    if rc2 != 0:
        raise ToolError(f"[{tag}] harness exited with {rc2} (crash of the harness process; see {tlc_log})")
    if rc1 == 124:
        raise ToolError(f"[{tag}] TLC timed out after {timeout}s")
    if info["violated"]:
        raise ToolError(f"[{tag}] the specification violates its own theorem(s) {info['violated']}: "
                        f"a defect of the machinery, not of the code (see {tlc_log})")
    if rc1 != 0 or (not simulate and not info["completed"]):
        raise ToolError(f"[{tag}] TLC failed (exit {rc1}): {info['errors'][:3]} (see {tlc_log})")
    with open(summ) as f:
        summary = json.load(f)
    if summary.get("bad_lines"):
        raise ToolError(f"[{tag}] {summary['bad_lines']} case lines could not be decoded")
    log(f"[{tag}] TLC: {info['generated']} states generated, {info['distinct']} distinct; "
        f"{summary['cases']} cases replayed, {summary['failure_count']} deviations, {wall:.1f}s")
    return info, summary


def make_prims(tag, outdir, pool=None, extra=None):
    """Environment-primitive table for a value pool: MC_PoolDump prints the pool, primgen (which does not link
    evalexpr) computes the native facts.  `extra` adds floats / ints / strings / words to the request."""
    os.makedirs(outdir, exist_ok=True)
    req = {"floats": [], "ints": [], "strings": [], "words": []}
    if pool:
        cfg = os.path.join(outdir, f"{tag}.pooldump.cfg")
        write_cfg(cfg, {"PoolName": pool})
        meta = os.path.join(outdir, f"{tag}.pooldump.tlc")
        cmd = tlc_cmd(os.path.join(SPEC, "MC_PoolDump.tla"), cfg, meta, 1)
        r = subprocess.run(["timeout", "120"] + cmd, cwd=SPEC, stdout=subprocess.PIPE, stderr=subprocess.STDOUT, text=True)
        shutil.rmtree(meta, ignore_errors=True)
        line = [l for l in r.stdout.splitlines() if l.startswith('"{')]
        if not line:
            raise ToolError("MC_PoolDump printed no pool:\n" + r.stdout[-2000:])
        req = json.loads(json.loads(line[0]))
    for k, v in (extra or {}).items():
        req[k] = list(req.get(k, [])) + list(v)
    reqf = os.path.join(outdir, f"{tag}.primreq.json")
    outf = os.path.join(outdir, f"{tag}.prims.json")
    with open(reqf, "w") as f:
        json.dump(req, f)
    build_harness()
    r = subprocess.run([primgen_path(), reqf, outf], stdout=subprocess.PIPE, stderr=subprocess.STDOUT, text=True)
    if r.returncode != 0:
        raise ToolError("primgen failed: " + r.stdout[-2000:])
    return outf


_lenunit = None


def len_unit():
    """The indexing unit shared by `len` and `str::substring` is a model parameter (the property claims only
    their mutual consistency): probed once on the real crate with len("\u00e4")."""
    global _lenunit
    if _lenunit is None:
        r = subprocess.run([build_harness(), "probe-lenunit"], stdout=subprocess.PIPE, text=True)
        _lenunit = r.stdout.strip() if r.stdout.strip() in ("bytes", "chars") else "bytes"
    return _lenunit


def empty_prims(outdir):
    os.makedirs(outdir, exist_ok=True)
    p = os.path.join(outdir, "empty.prims.json")
    with open(p, "w") as f:
        f.write('{"fparse": {}}')
    return p


# ------------------------------------------------------------------------------------------------
# code -> spec: record executions of the real crate and validate them against Trace_Api.tla
# ------------------------------------------------------------------------------------------------
def validate_jobs(tag, jobs, outdir, gen, n, timeout=900, parallel=8, missing_prim_rejects=False):
    """Validates recorded traces (jobs: (seed, trace, prims)) with TLC against Trace_Api.tla; returns the rejections."""
    cfg = os.path.join(outdir, f"{tag}.trace.cfg")
    write_cfg(cfg, {}, postcondition="Accepted")
    running = []
    results = []

    def start(job):
        sd, trace, prims = job
        meta = trace + ".tlc"
        shutil.rmtree(meta, ignore_errors=True)
        cmd = tlc_cmd(os.path.join(SPEC, "Trace_Api.tla"), cfg, meta, 1, xmx="3g", xss="512m", deque=True)
        env = dict(os.environ, TRACE=trace, PRIMS=prims, LENUNIT=len_unit())
        logf = open(trace + ".tlc.log", "w")
        p = subprocess.Popen(["timeout", str(timeout)] + cmd, cwd=SPEC, stdout=logf, stderr=subprocess.STDOUT, env=env)
        return (p, job, meta, logf)

    pending = list(jobs)
    while pending or running:
        while pending and len(running) < parallel:
            running.append(start(pending.pop(0)))
        p, job, meta, logf = running.pop(0)
        rc = p.wait()
        logf.close()
        shutil.rmtree(meta, ignore_errors=True)
        results.append((rc, job))
    rejections = []
    for rc, (sd, trace, prims) in results:
        text = open(trace + ".tlc.log", errors="replace").read()
        if rc == 124:
            raise ToolError(f"[{tag}] trace validation timed out ({trace})")
        inconclusive = text.count('"INCONCLUSIVE"')
        if inconclusive:
            DIAGNOSTICS["trace_events_inconclusive"] = DIAGNOSTICS.get("trace_events_inconclusive", 0) + inconclusive
            log(f"[{tag}] {inconclusive} event(s) inconclusive: more than one documented outcome, or a function the specification does not know")
        drift = text.count('"MESSAGE-DRIFT"')
        if drift:
            DIAGNOSTICS["message_texts_differing_from_Messages.tla"] = DIAGNOSTICS.get("message_texts_differing_from_Messages.tla", 0) + drift
            log(f"[diagnostic] {drift} error message text(s) differ from Messages.tla (not part of any property; not part of the verdict)")
        unmatched = [l for l in text.splitlines() if l.startswith('"{') and "unmatched" in l]
        if unmatched:
            ev = json.loads(json.loads(unmatched[0]))
            rejections.append({"seed": sd, "trace": trace, "index": ev["unmatched"], "event": ev["event"], "gen": gen, "n": n})
        elif missing_prim_rejects and "nonexistent field" in text:
            # the specification's evaluation needed an environment primitive on operands the recorded execution never applied
            # an operator to: the two evaluations diverged inside this event
            idx = [int(m) for m in re.findall(r"^/\\ l = (\d+)$", text, re.M)]
            at = max(idx) if idx else 0
            ev = {}
            with open(trace) as tf:
                for k, line in enumerate(tf, 1):
                    if k == at:
                        ev = json.loads(line)
            rejections.append({"seed": sd, "trace": trace, "index": at, "event": ev, "gen": gen, "n": n,
                               "why": "the specification's evaluation diverged from the recorded one (operands never seen)"})
        elif "Model checking completed. No error has been found." not in text:
            errs = [l for l in text.splitlines() if l.startswith("Error")][:3]
            raise ToolError(f"[{tag}] TLC failed on {trace}: {errs}")
        else:
            os.remove(trace)          # accepted traces are not kept (disk)
            for extra in (prims, trace + ".primreq.json"):
                if os.path.exists(extra):
                    os.remove(extra)
    return rejections


def record_and_validate(tag, gen, n, count, outdir, base_seed=None, timeout=900, parallel=8, extra_args=(), seeds=None):
    """Records `count` independent traces of `n` driver steps each with generator `gen` (seeds derived from VERIF_SEED)
    and validates each with TLC.  Returns (events_validated, rejections); a rejection carries the first unmatched event."""
    os.makedirs(outdir, exist_ok=True)
    hbin = build_harness()
    base = seed() if base_seed is None else base_seed
    jobs = []
    total_events = 0
    for i in range(count):
        sd = seeds[i] if seeds else base * 1000 + i
        trace = os.path.join(outdir, f"{tag}_{i}.ndjson")
        req = trace + ".primreq.json"
        r = subprocess.run([hbin, "record", "--gen", gen, "--seed", str(sd), "--n", str(n), "--out", trace, "--primreq", req]
                           + list(extra_args),
                           stdout=subprocess.PIPE, stderr=subprocess.STDOUT, text=True)
        if r.returncode != 0:
            fam = [l.split()[1] for l in r.stdout.splitlines() if l.startswith("DEEP ")]
            if gen == "deep" and fam and r.returncode < 0 or (gen == "deep" and fam and r.returncode in (134, 139)):
                # the process died (stack overflow / abort) while a maximal-nesting input was being processed: that is a C01
                # violation of the code under test, not a tool error
                return 0, [{"seed": sd, "trace": trace, "index": len(fam), "gen": gen, "n": n,
                            "event": {"ev": "deep", "family": fam[-1], "res": {"p": "abort", "panic": f"process exit {r.returncode}"}}}]
            raise ToolError(f"[{tag}] recorder failed: {r.stdout[-2000:]}")
        total_events += int(r.stdout.strip().splitlines()[-1])
        prims = trace + ".prims.json"
        r = subprocess.run([primgen_path(), req, prims], stdout=subprocess.PIPE, stderr=subprocess.STDOUT, text=True)
        if r.returncode != 0:
            raise ToolError(f"[{tag}] primgen failed: {r.stdout[-2000:]}")
        jobs.append((sd, trace, prims))
        if i == 0:
            del TRACE_SAMPLES[:]
            with open(trace) as tf:
                for k, line in enumerate(tf):
                    ev = json.loads(line)
                    if ev.get("ev") not in ("ctx",) and len(TRACE_SAMPLES) < 2:
                        TRACE_SAMPLES.append({"recorded_event": describe_event(ev), "seed": sd, "raw": line[:700]})
                    if k > 50:
                        break
    rejections = validate_jobs(tag, jobs, outdir, gen, n, timeout, parallel)
    log(f"[{tag}] {count} recorded traces, {total_events} events validated against Trace_Api.tla, {len(rejections)} rejected")
    return total_events, rejections


TRACE_SAMPLES = []
DIAGNOSTICS = {}

HOOK_CFG = "evalexpr_verif"


def record_repo_tests(tag, outdir):
    """Code -> spec with the repository's OWN tests as the driver: /repo is built with its guarded hooks on
    (--cfg evalexpr_verif; target directory under /verif/out), its test suite runs with EVALEXPR_VERIF_TRACE set, every
    top-level precompilation and evaluation the tests perform is recorded (src/verif.rs), converted (`harness convert`)
    and validated against Trace_Api.tla.  Returns (info, rejections); info["skipped"] is set when the hooked build or the
    hooked test run does not succeed - then nothing is concluded from this source (it is neither a pass nor an alarm)."""
    os.makedirs(outdir, exist_ok=True)
    hbin = build_harness()
    raw = os.path.join(outdir, f"{tag}.raw.jsonl")
    if os.path.exists(raw):
        os.remove(raw)
    target = os.path.join(OUT, "target-repo-hooks")
    flags = f"--cfg {HOOK_CFG}"
    env = dict(os.environ, CARGO_NET_OFFLINE="true", CARGO_TARGET_DIR=target, RUSTFLAGS=flags, RUSTDOCFLAGS=flags,
               EVALEXPR_VERIF_TRACE=raw)
    info = {"source": "repository test suite under --cfg " + HOOK_CFG, "skipped": None}
    t0 = time.time()
    if not os.path.exists("/repo/src/verif.rs"):
        info["skipped"] = "the hooks (src/verif.rs) are not present in /repo"
        return info, []
    r = subprocess.run(["cargo", "test", "--offline", "--no-run", "--workspace"], cwd="/repo", env=env, stdout=subprocess.PIPE,
                       stderr=subprocess.STDOUT, text=True)
    if r.returncode != 0:
        info["skipped"] = "the hooked build of /repo failed: " + r.stdout[-600:]
        log(f"[{tag}] hooked build failed - this trace source is skipped")
        return info, []
    r = subprocess.run(["cargo", "test", "--offline", "--workspace", "--no-fail-fast"], cwd="/repo", env=env, stdout=subprocess.PIPE,
                       stderr=subprocess.STDOUT, text=True)
    info["test_exit"] = r.returncode
    if not os.path.exists(raw):
        info["skipped"] = "the hooked test run recorded nothing"
        return info, []
    trace = os.path.join(outdir, f"{tag}.ndjson")
    req = trace + ".primreq.json"
    # at most 15 000 distinct events (a test suite that generates inputs in loops): validation stays within minutes
    c = subprocess.run([hbin, "convert", "--in", raw, "--out", trace, "--primreq", req, "--max-events", "15000"], stdout=subprocess.PIPE,
                       stderr=subprocess.STDOUT, text=True)
    if c.returncode != 0:
        raise ToolError(f"[{tag}] convert failed: {c.stdout[-2000:]}")
    stats = json.loads(c.stdout.strip().splitlines()[-1])
    info.update(stats)
    prims = trace + ".prims.json"
    g = subprocess.run([build_primgen81(), req, prims], stdout=subprocess.PIPE, stderr=subprocess.STDOUT, text=True)
    if g.returncode != 0:
        raise ToolError(f"[{tag}] primgen81 failed: {g.stdout[-2000:]}")
    os.remove(raw)
    info["events"] = stats["builds"] + 2 * stats["evals"]
    info["record_s"] = round(time.time() - t0, 1)
    if info["events"] == 0:
        info["skipped"] = "no event was recorded"
        return info, []
    # If the specification's evaluation of an event needs an environment primitive on operands the recorded execution never
    # applied an operator to (the table is built from the operands the hooks saw), the two evaluations took different routes
    # inside that event - or a refactoring moved arithmetic away from the hooked function.  Nothing can be concluded about
    # that event: it is dropped (counted as inconclusive) and the rest of the trace is validated.
    inconclusive = 0
    rejections = []
    for _ in range(20):
        rejections = validate_jobs(tag, [(0, trace, prims)], outdir, "repotests", 0, timeout=900, parallel=1, missing_prim_rejects=True)
        undecided = [r for r in rejections if r.get("why")]
        if not undecided:
            break
        at = undecided[0]["index"]
        with open(trace) as tf:
            lines = tf.readlines()
        if not (1 <= at <= len(lines)):
            raise ToolError(f"[{tag}] cannot locate the event TLC stopped at")
        del lines[at - 1]
        with open(trace, "w") as tf:
            tf.writelines(lines)
        inconclusive += 1
        info["events"] -= 1
        rejections = []
    else:
        info["skipped"] = "more than 20 events could not be evaluated by the specification with the recorded operands"
        return info, []
    info["inconclusive_events"] = inconclusive
    log(f"[{tag}] /repo's own tests under hooks: {stats['builds']} precompilations and {stats['evals']} evaluations recorded, "
        f"{info['events']} events validated against Trace_Api.tla, {len(rejections)} rejected")
    return info, rejections


def describe_event(ev):
    """A short human-readable rendering of a recorded event (for VIOLATION details)."""
    def txt(cp):
        return "".join(chr(c) for c in cp)
    e = ev.get("event", ev)
    parts = [e.get("ev", "?")]
    def tree(t):
        label = t["o"] + ("(" + txt(t["n"]) + ")" if t.get("n") else "")
        return label if not t.get("k") else label + "[" + ", ".join(tree(k) for k in t["k"]) + "]"
    if "src" in e:
        parts.append(repr(txt(e["src"])))
    elif "tree" in e:
        parts.append(tree(e["tree"])[:300])
    if "n" in e and isinstance(e["n"], list):
        parts.append(txt(e["n"]))
    res = e.get("res")
    if isinstance(res, dict):
        if res.get("p") == "err":
            parts.append("-> Err(" + res["e"]["e"] + ")")
        elif res.get("p") == "panic":
            parts.append("-> PANIC " + str(res.get("panic")))
        else:
            parts.append("-> " + res.get("p", ""))
    return " ".join(parts)


# ------------------------------------------------------------------------------------------------
# known findings
# ------------------------------------------------------------------------------------------------
def load_known():
    findings = []
    if not os.path.exists(KNOWN):
        return findings
    with open(KNOWN) as f:
        for line in f:
            line = line.strip()
            if not line.startswith("finding:"):
                continue
            m = re.match(r"finding:\s+property=(\S+)\s+key=(\S+)\s+::\s+(.*)", line)
            if m:
                findings.append({"property": m.group(1), "key": m.group(2), "text": m.group(3)})
    return findings


def known_match(prop, failure, findings):
    """A failure is a known finding iff a listed finding of the same property has a key (a regular
    expression) matching `<check>|<finding_key of the failure>`; the harness computes finding_key from
    the specific failing input (e.g. the lower-cased word for C06), never from the property alone."""
    subject = failure["check"] + "|" + str(failure.get("finding_key", failure.get("detail", "")))
    for k in findings:
        if k["property"] == prop and re.fullmatch(k["key"], subject):
            return k
    return None


# ------------------------------------------------------------------------------------------------
# a check run
# ------------------------------------------------------------------------------------------------
class Check:
    def __init__(self, prop, tier, level="model_checking"):
        self.prop = prop
        self.tier = tier
        self.level = level
        self.t0 = time.time()
        self.outdir = os.path.join(OUT, prop, tier)
        shutil.rmtree(self.outdir, ignore_errors=True)
        os.makedirs(self.outdir, exist_ok=True)
        self.states = 0
        self.transitions = 0
        self.replayed = 0
        self.trace_events = 0
        self.evaluations = 0
        self.nontrivial = 0
        self.samples = []
        self.violations = []
        self.known_hits = {}
        self.runs = []
        self.exhaustive = True
        self.rule = ""
        self.assumptions = []
        self.trusted = ["TLC 1.8.0 and the CommunityModules Json/IOUtils modules",
                        "the harness's JSON encoder (harness/src/enc.rs), exercised by the binding self-test"]
        self.cmds = []
        self.extra = {}
        self.findings = load_known()

    def add_model(self, info, summary, relevant, nontrivial_keys=(), exhaustive=True, note=None, must_occur=()):
        """Accounts one TLC-model run; `relevant` = the harness check tags that decide this property.
        `must_occur`: counters / distinct categories that have to be positive - a run in which a kind of case never
        occurred is vacuous and is a tool error, not a pass."""
        for k in list(must_occur) + list(nontrivial_keys):
            if summary["counters"].get(k, 0) + summary["distinct"].get(k, 0) == 0:
                raise ToolError(f"vacuous run: no case of kind '{k}' was produced ({info['cmd'][-120:]})")
        self.states += info["distinct"]
        self.transitions += info["generated"]
        self.replayed += summary["cases"]
        self.evaluations += summary["cases"]
        for k in nontrivial_keys:
            self.nontrivial += summary["distinct"].get(k, 0)
        if not exhaustive:
            self.exhaustive = False
        self.cmds.append(info["cmd"])
        run = {"model_cmd": info["cmd"], "wall_s": info["wall_s"], "tlc_states_generated": info["generated"],
               "tlc_distinct_states": info["distinct"], "cases_replayed": summary["cases"],
               "counters": summary["counters"], "distinct": summary["distinct"],
               "deviations_by_check": summary["failure_checks"]}
        if info.get("coverage"):
            run["tlc_action_coverage"] = info["coverage"]
        if note:
            run["note"] = note
        self.runs.append(run)
        for name, ss in summary.get("samples", {}).items():
            for s in ss[:1]:
                if len(self.samples) < 8:
                    self.samples.append({"kind": name, "case": s})
        n_rel = 0
        for f in summary["failures"]:
            if relevant is not None and f["check"] not in relevant:
                continue
            n_rel += 1
            self.add_failure(f)
        # failures beyond the stored ones still count
        total_rel = sum(v for k, v in summary["failure_checks"].items() if relevant is None or k in relevant)
        self.extra["deviations_total"] = self.extra.get("deviations_total", 0) + total_rel

    def add_traces(self, tag, gen, n, count, check, note=None, timeout=900, extra_args=()):
        """Accounts a code->spec run: recorded traces validated by TLC against Trace_Api.tla."""
        events, rejections = record_and_validate(tag, gen, n, count, self.outdir, timeout=timeout, extra_args=extra_args)
        self.trace_events += events
        self.evaluations += events
        self.exhaustive = False if not self.runs else self.exhaustive
        self.runs.append({"trace_generator": gen, "traces": count, "driver_steps_per_trace": n, "events_validated": events,
                          "rejected": len(rejections), "note": note or ""})
        self.cmds.append(f"harness record --gen {gen} --n {n} (x{count}) | tlc Trace_Api.tla (POSTCONDITION Accepted)")
        for smp in TRACE_SAMPLES[:1]:
            if len(self.samples) < 10:
                self.samples.append({"kind": f"trace:{gen}", "case": smp})
        for r in rejections:
            self.add_failure({"check": check, "detail": f"recorded {gen} trace (seed {r['seed']}): event {r['index']} is not a behaviour the "
                              f"specification allows: {describe_event(r)}", "case": {"kind": "trace", "gen": gen, "seed": r["seed"], "n": n,
                                                                                  "index": r["index"], "event": r["event"]},
                              "observed": None, "finding_key": None})
        return events, rejections

    def add_repo_tests(self, check, tag="trace_repotests"):
        """Accounts the code->spec run driven by /repo's own tests (hooks on)."""
        info, rejections = record_repo_tests(tag, self.outdir)
        run = dict(info, trace_generator="repotests", rejected=len(rejections))
        self.runs.append(run)
        if info.get("skipped"):
            self.assumptions.append("trace source 'repotests' skipped: " + info["skipped"][:200])
            return info, rejections
        self.trace_events += info["events"]
        self.evaluations += info["events"]
        self.cmds.append("RUSTFLAGS='--cfg evalexpr_verif' EVALEXPR_VERIF_TRACE=raw cargo test (in /repo) ; harness convert ; "
                         "tlc Trace_Api.tla (POSTCONDITION Accepted)")
        for r in rejections:
            self.add_failure({"check": check, "detail": f"execution of /repo's own tests: event {r['index']} is not a behaviour the "
                              f"specification allows: {describe_event(r)} {r.get('why', '')}",
                              "case": {"kind": "trace", "gen": "repotests", "seed": 0, "n": 0, "index": r["index"], "event": r["event"]},
                              "observed": None, "finding_key": None})
        return info, rejections

    def add_failure(self, f):
        k = known_match(self.prop, f, self.findings)
        if k is not None:
            self.known_hits.setdefault(k["key"], {"finding": k, "count": 0, "example": f["detail"]})
            self.known_hits[k["key"]]["count"] += 1
        else:
            self.violations.append(f)

    def finish(self):
        wall = time.time() - self.t0
        os.makedirs(EVID, exist_ok=True)
        replay_paths = []
        for i, f in enumerate(self.violations[:20]):
            path = os.path.join(self.outdir, f"violation-{i + 1}.json")
            with open(path, "w") as fh:
                json.dump({"property": self.prop, "tier": self.tier, "seed": seed(), "check": f["check"],
                           "detail": f["detail"], "case": f["case"], "observed": f.get("observed")}, fh, indent=1)
            replay_paths.append(path)
        cov = {
            "states": max(self.states, 0),
            "transitions": max(self.transitions, 0),
            "traces_validated_against_impl": self.replayed + self.trace_events,
            "samples": self.samples if self.samples else [{"note": "no case was produced"}],
            "evaluations": self.evaluations,
            "distinct_nontrivial": self.nontrivial,
            "rule": self.rule,
            "exhaustive": self.exhaustive,
            "checker_cmd": " ; ".join(self.cmds)[:4000],
            "trusted_base": self.trusted,
            "cases_replayed_spec_to_code": self.replayed,
            "trace_events_validated_code_to_spec": self.trace_events,
            "runs": self.runs,
            "known_findings_hit": [{"key": k, "count": v["count"], "example": v["example"]} for k, v in self.known_hits.items()],
        }
        if DIAGNOSTICS:
            cov["diagnostics_not_part_of_the_verdict"] = dict(DIAGNOSTICS)
        cov.update(self.extra)
        ev = {"property_id": self.prop, "tier": self.tier, "seed": seed(), "level": self.level, "coverage": cov,
              "assumptions": self.assumptions, "wall_s": round(wall, 1), "violations": len(self.violations)}
        with open(os.path.join(EVID, f"{self.prop}.json"), "w") as fh:
            json.dump(ev, fh, indent=1)
        for k, v in self.known_hits.items():
            log(f"KNOWN-FINDING: property={self.prop} {v['finding']['text']} ({v['count']} cases, e.g. {v['example'][:160]})")
        if self.violations:
            for f, p in zip(self.violations[:20], replay_paths):
                log(f"  deviation [{f['check']}] {f['detail'][:300]}")
            for p in replay_paths[:5]:
                log(f"VIOLATION property={self.prop} replay={p}")
            log(f"[{self.prop}] {len(self.violations)} violation(s) in {wall:.1f}s")
            return 1
        log(f"[{self.prop}] held on everything explored: {self.states} states, {self.replayed} cases replayed, "
            f"{self.trace_events} trace events validated, {wall:.1f}s")
        return 0


def replay_file(path):
    """Re-runs the stored case of a violation file through the harness; exit code per contract."""
    with open(path) as f:
        v = json.load(f)
    kind = v["case"].get("kind") if isinstance(v.get("case"), dict) else None
    if kind == "compile":
        # the violation was a compile-time one (Send + Sync assertions / serde impls): compile again
        diag = build_sendsync(os.path.join(OUT, "replay")) if v["property"] == "C15" else build_serde_harness(os.path.join(OUT, "replay"))[1]
        if diag:
            log(f"  still does not compile: {diag}")
            log(f"VIOLATION property={v['property']} replay={path}")
            return 1
        log(f"[{v['property']}] compiles now")
        return 0
    if kind == "trace":
        # re-record the trace with the stored generator and seed and validate it again
        c = v["case"]
        if c["gen"] == "repotests":
            _, rej = record_repo_tests("replay", os.path.join(OUT, "replay"))
            if rej:
                log(f"  event {rej[0]['index']}: {describe_event(rej[0])}")
                log(f"VIOLATION property={v['property']} replay={path}")
                return 1
            log(f"[{v['property']}] the re-recorded execution of /repo's tests is accepted")
            return 0
        extra = ("--threads", str(c["event"].get("threads", 8))) if c["gen"] == "threads" else ()
        _, rej = record_and_validate("replay", c["gen"], c["n"], 1, os.path.join(OUT, "replay"), base_seed=0, extra_args=extra,
                                     seeds=[c["seed"]])
        if rej:
            log(f"  event {rej[0]['index']}: {describe_event(rej[0])}")
            log(f"VIOLATION property={v['property']} replay={path}")
            return 1
        log(f"[{v['property']}] the re-recorded trace is accepted")
        return 0
    hbin = build_harness()
    if v["check"].startswith("serde"):
        hbin, diag = build_serde_harness(os.path.join(OUT, "replay"))
        if hbin is None:
            log(f"VIOLATION property={v['property']} replay={path}")
            return 1
    tmp = os.path.join(OUT, "replay")
    os.makedirs(tmp, exist_ok=True)
    summ = os.path.join(tmp, "summary.json")
    p = subprocess.run([hbin, "replay", "--out", summ, "--threads", "1"], input=json.dumps(v["case"]) + "\n", text=True)
    if p.returncode != 0:
        raise ToolError("harness failed on the replay file")
    with open(summ) as f:
        s = json.load(f)
    findings = load_known()
    bad = [f for f in s["failures"] if f["check"] == v["check"] and known_match(v["property"], f, findings) is None]
    if bad:
        log(f"  deviation [{bad[0]['check']}] {bad[0]['detail']}")
        log(f"VIOLATION property={v['property']} replay={path}")
        return 1
    log(f"[{v['property']}] the stored case no longer deviates")
    return 0
