#!/usr/bin/env python3
"""Regenerates /verif/MANIFEST.json from the table below (kept valid at all times)."""
import json
import os

ROOT = os.path.dirname(os.path.dirname(os.path.abspath(__file__)))
props = [json.loads(l) for l in open(os.path.join(ROOT, "properties.jsonl"))]

TRUST = ("Bounded: exhaustive inside the stated bounds, sampled beyond. Trusted: TLC and the CommunityModules "
         "JSON/IO modules; the harness encoder; IEEE hardware/libm via primgen for float primitives.")

CLAIMED = {
    "C01": dict(
        text="TLC enumerates the input spaces of the other models (all token sequences up to a length bound, "
             "including every ill-formed and unspecified one); the harness runs each through all 48 entry points on "
             "four contexts plus Display/Debug under catch_unwind. Totality is a statement of the specification "
             "(every Api action is enabled with an Ok/Err outcome).",
        note=TRUST, tech="TLC-enumerated inputs replayed against the crate under catch_unwind", ref="5 C01"),
    "C02": dict(
        text="Grammar.tla states the documented precedence grammar; TLC enumerates token sequences, checks "
             "parse(render(tree)) = tree for three parenthesisations as a theorem of the spec, and every WF sequence is "
             "replayed: build_operator_tree must give the grammar's tree.",
        note=TRUST, tech="TLC model of the grammar + spec-to-code tree conformance", ref="5 C02"),
    "C03": dict(
        text="Operators.tla states the operator semantics (exact integer arithmetic on limbs in Int64.tla, IEEE results as "
             "environment primitives, promotion, comparison, equality, type errors); TLC enumerates 16 operators x pool^2 "
             "of boundary values, checks type-table / symmetry / overflow laws on the specification and emits each case; "
             "the real result must be bit-identical or an error of the same class. Code -> spec: recorded single operations on "
             "full-range operands and recorded programs of NESTED float / mixed arithmetic (floatprogs; operand table from a shadow "
             "walk, DESIGN.md 11.9) are validated event by event against Trace_Api.tla.",
        note=TRUST, tech="TLC enumeration of operator x operand pairs against an executable TLA+ semantics + TLC trace validation "
                         "of recorded (nested) arithmetic", ref="5 C03"),
    "C04": dict(
        text="MC_Ctx.tla is the abstract map model of HashMapContext (two slots, clone, type-safety rule, clears, separate "
             "function namespace, builtin switch); TLC explores every reachable abstract state x every operation and checks "
             "TypeStable / FailedCallAtomic / CloneIndependent / NamespacesSeparate as action properties; every transition is "
             "replayed with a shortest history on real contexts, comparing every return value and the complete projection.",
        note=TRUST, tech="TLC state-graph exploration of the context model + history replay", ref="5 C04"),
    "C05": dict(
        text="All token sequences over the sequence alphabets up to length 7/9 are parsed by the normative grammar "
             "(chain of tuples of optional elements) under TLC with the shape theorem as invariant; the real tree "
             "must equal the grammar's tree for every well-formed one.",
        note=TRUST, tech="TLC-enumerated token sequences + tree conformance", ref="5 C05"),
    "C06": dict(
        text="Lexer.tla is the normative lexer over code points (string literals and the two escapes, integer / hex / float / "
             "three-piece float / boolean / identifier classification with Int64 range checks); TLC enumerates all words over a "
             "10-character alphabet in 12 embeddings (incl. signs glued to the word) and all string bodies over 11 characters in 3 quotings, checks "
             "Lex(quote(t)) = String(t) and token-text concatenation as theorems, and every source is replayed against "
             "build_operator_tree. One recorded known finding (KF-1: inf / infinity / nan).",
        note=TRUST + " The value of a float-looking word is Rust's f64::from_str (primgen).",
        tech="TLC enumeration of strings through the TLA+ lexer + tree conformance", ref="5 C06"),
    "C07": dict(
        text="MC_Sep enumerates token sequences x separator assignments (whitespace characters, block / line comments, nothing); "
             "admissibility is a syntactic fusion rule and TLC checks it is exact: the lexer returns the token sequence iff the "
             "assignment is admissible. For every admissible assignment the single-space rendering and the separator rendering "
             "must precompile to equal trees or the same error.",
        note=TRUST, tech="TLC-checked separator theorem on the TLA+ lexer + two-rendering conformance", ref="5 C07"),
    "C08": dict(
        text="Eval.tla defines evaluation as a post-order, left-to-right walk threading (context, call log) that stops at "
             "the first error; TLC enumerates all programs of up to three atoms (assignments, recording user functions, "
             "failing sub-expressions) from three contexts, checks FirstErrorWins on the specification and emits the triple "
             "(result, context afterwards, ordered call log) that the real crate must reproduce; executions of the repository's own tests (guarded hooks) are validated against the same evaluator with the tests' closures as oracles.",
        note=TRUST, tech="TLC-enumerated programs against the TLA+ evaluator, comparing result + context + call log", ref="5 C08"),
    "C09": dict(
        text="The resolution rule is CallFunction in Eval.tla; MC_Resolve enumerates the complete finite configuration matrix "
             "(58 names incl. near misses of builtin names x context kinds x user function x variable x 8 call forms) with theorems (variables never influence "
             "resolution, a context function is called exactly once with exactly the argument); MC_Ctx adds clone / "
             "clear_functions / toggling histories, and recorded histories re-evaluate precompiled trees while functions are bound, re-bound and cleared. One recorded known finding (KF-2).",
        note=TRUST, tech="TLC enumeration of the complete resolution matrix + conformance with recording functions", ref="5 C09"),
    "C10": dict(
        text="Builtins.tla is written from the README table; BuiltinAllowed gives the declarative outcome set (min/max = any "
             "extreme argument, undocumented cases open) and TLC checks that the deterministic semantics lies inside it; "
             "49 names x argument shapes of arity 0..4 over boundary pools are replayed bit-exactly.",
        note=TRUST, tech="TLC enumeration of builtin x argument shapes against the TLA+ builtin table", ref="5 C10"),
    "C11": dict(
        text="Immutable evaluation is defined by the same traversal with mode = imm; the property's projection is the theorem "
             "ImmIsProjection (immutable result = mutable result unless an assignment operator is reached, context unchanged), "
             "checked by TLC on every enumerated program x six contexts; paired immutable / mutable calls are replayed.",
        note=TRUST, tech="TLC-checked projection theorem between the two evaluation modes + paired replay", ref="5 C11"),
    "C12": dict(
        text="Api.tla defines the 48 entry points as ProjectKind(kind, Core(mode, tree, state)); TLC enumerates programs of "
             "every result type and error kind x contexts x all 48 entry points; expected-type errors are compared exactly. "
             "For ill-formed and unspecified inputs the harness additionally checks that a precompilation error is returned "
             "unchanged by every string-level entry point and that string level and tree level agree.",
        note=TRUST, tech="TLC enumeration over the entry-point projection table + code-vs-code consistency", ref="5 C12"),
    "C13": dict(
        text="The classifier of Grammar.tla marks a sequence IF exactly when it is not derivable; for every IF "
             "sequence up to the bound the real crate must fail to precompile or produce an arity-deficient tree that "
             "fails every evaluation; balanced/unbalanced reporting is checked on every sequence.",
        note=TRUST, tech="TLC-enumerated token sequences classified by the spec + rejection conformance", ref="5 C13"),
    "C14": dict(
        text="Grammar.Occurrences gives the pre-order identifier list with classes; for every WF sequence the ten "
             "iterators of the real tree - each consumed in six ways (collect, next, next + for_each, fold, count / last, nth) - must equal its filters.",
        note=TRUST, tech="TLC-enumerated trees + iterator conformance", ref="5 C14"),
    "C15": dict(
        text="Type level: rust/sendsync holds Send + Sync assertions for the eight public types (decided by the type checker, a "
             "compile error is the violation). Design level: Conc.tla, TLC explores every interleaving of three reader threads and "
             "an exclusive writer and checks that each result is the sequential one and readers never change the context. Code "
             "level: real threads share Arc'd trees and one context; every distinct (program, entry point, result) is validated "
             "as an event of Trace_Api.tla.",
        note=TRUST + " Real schedules are sampled, not enumerated; the type-level half is decided by rustc, not by TLC.",
        tech="rustc Send+Sync assertions + TLC interleaving model + trace validation of multi-threaded runs", ref="5 C15"),
    "C16": dict(
        text="Node half: every enumerated source is deserialised through RON and compared with build_operator_tree (equal trees / "
             "equal messages). Context half: SerdeProjection is an action of MC_Ctx.tla (same variables and switch, no "
             "functions); histories with a serialise + deserialise step after every reachable state and every pool value are "
             "replayed by a separate harness built with the repository's toolchain and the serde feature. Missing impls = the "
             "harness does not compile = violation.",
        note=TRUST + " Trusted: the ron 0.8 text format. Existence of the impls is decided by rustc.",
        tech="TLC context model with a serde action + RON round-trip conformance", ref="5 C16"),
}

checks = []
na = []
for p in props:
    pid = p["id"]
    c = CLAIMED.get(pid)
    if c is None:
        na.append({"property_id": pid, "reason": "check under construction in this round (DESIGN.md section 9); "
                   "claimed once its TLA+ model and conformance harness are committed"})
        continue
    checks.append({
        "property_id": pid,
        "quick_cmd": f"./bin/check {pid} --tier quick",
        "thorough_cmd": f"./bin/check {pid} --tier thorough",
        "evidence_file": f"/verif/evidence/{pid}.json",
        "replay_cmd_template": "./bin/check {property} --replay {path}".replace("{property}", pid),
        "engine": "tlc+harness",
        "level_claimed": {"category": "model_checking", "text": c["text"], "design_ref": "DESIGN.md section " + c["ref"]},
        "level_note": c["note"],
        "technique": c["tech"],
    })

m = {
    "version": 1,
    "setup_cmd": "./bin/setup",
    "hooks": {"guard": "evalexpr_verif",
              "enable": "RUSTFLAGS='--cfg evalexpr_verif' RUSTDOCFLAGS='--cfg evalexpr_verif' CARGO_TARGET_DIR=/verif/out/target-repo-hooks "
                        "EVALEXPR_VERIF_TRACE=<file> cargo test --offline --workspace (cwd /repo; lib/vf.py:record_repo_tests): the "
                        "repository's own tests run with the hooks on and every top-level precompilation / evaluation they perform is "
                        "recorded and validated against Trace_Api.tla (DESIGN.md 11.7).  All other checks use the public API only.",
              "baseline_off_cmd": "cd /repo && cargo test --workspace --no-fail-fast --offline",
              "source_commits": ["7f14cb9"], "add_only": True},
    "engines": [{"name": "tlc+harness", "path": "/verif/bin/check",
                 "serves_properties": [c["property_id"] for c in checks],
                 "kind_free_text": "explicit TLA+ specification (spec/*.tla) model-checked by TLC; every explored case is "
                                   "replayed against the real crate (spec->code) and recorded executions are validated "
                                   "against the same specification (code->spec)"}],
    "checks": checks,
    "not_applicable": na,
    "notes": "Model-based verification with an explicit TLA+ specification; see DESIGN.md.",
}
json.dump(m, open(os.path.join(ROOT, "MANIFEST.json"), "w"), indent=1)
print("manifest:", len(checks), "claimed,", len(na), "not yet")
