//! C15, type-level half: the public data types of evalexpr are `Send + Sync`.
//! Decided by the Rust type checker when this crate is compiled; a compile error here (while the
//! harness itself compiles) is the violation.
use evalexpr::*;

fn assert_send_sync<T: Send + Sync>() {}

pub fn all() {
    assert_send_sync::<Node<DefaultNumericTypes>>();
    assert_send_sync::<Value<DefaultNumericTypes>>();
    assert_send_sync::<EvalexprError<DefaultNumericTypes>>();
    assert_send_sync::<Function<DefaultNumericTypes>>();
    assert_send_sync::<Operator<DefaultNumericTypes>>();
    assert_send_sync::<HashMapContext<DefaultNumericTypes>>();
    assert_send_sync::<EmptyContext<DefaultNumericTypes>>();
    assert_send_sync::<EmptyContextWithBuiltinFunctions<DefaultNumericTypes>>();
}
