#![allow(dead_code)]
//! A small JSON reader / writer (serde_json is not available in the offline registry of the
//! repository's pinned toolchain).
use std::collections::BTreeMap;

#[derive(Clone, Debug, PartialEq)]
pub enum J {
    Null,
    Bool(bool),
    Num(f64),
    Str(String),
    Arr(Vec<J>),
    Obj(BTreeMap<String, J>),
}

static NULL: J = J::Null;

impl J {
    pub fn get(&self, k: &str) -> &J {
        match self {
            J::Obj(m) => m.get(k).unwrap_or(&NULL),
            _ => &NULL,
        }
    }
    pub fn has(&self, k: &str) -> bool {
        matches!(self, J::Obj(m) if m.contains_key(k))
    }
    pub fn arr(&self) -> &[J] {
        match self {
            J::Arr(a) => a,
            _ => &[],
        }
    }
    pub fn str(&self) -> &str {
        match self {
            J::Str(s) => s,
            _ => "",
        }
    }
    pub fn u64(&self) -> u64 {
        match self {
            J::Num(n) => *n as u64,
            _ => 0,
        }
    }
    pub fn bool(&self) -> bool {
        matches!(self, J::Bool(true))
    }
    pub fn text(&self) -> String {
        self.arr().iter().map(|c| char::from_u32(c.u64() as u32).unwrap_or('\u{fffd}')).collect()
    }
}

pub fn parse(s: &str) -> Option<J> {
    let b: Vec<char> = s.chars().collect();
    let mut p = 0;
    let v = value(&b, &mut p)?;
    ws(&b, &mut p);
    if p == b.len() {
        Some(v)
    } else {
        None
    }
}
fn ws(b: &[char], p: &mut usize) {
    while *p < b.len() && b[*p].is_whitespace() {
        *p += 1;
    }
}
fn value(b: &[char], p: &mut usize) -> Option<J> {
    ws(b, p);
    match *b.get(*p)? {
        '{' => {
            *p += 1;
            let mut m = BTreeMap::new();
            ws(b, p);
            if b.get(*p) == Some(&'}') {
                *p += 1;
                return Some(J::Obj(m));
            }
            loop {
                ws(b, p);
                let k = match string(b, p)? {
                    J::Str(s) => s,
                    _ => return None,
                };
                ws(b, p);
                if b.get(*p) != Some(&':') {
                    return None;
                }
                *p += 1;
                m.insert(k, value(b, p)?);
                ws(b, p);
                match b.get(*p)? {
                    ',' => *p += 1,
                    '}' => {
                        *p += 1;
                        return Some(J::Obj(m));
                    },
                    _ => return None,
                }
            }
        },
        '[' => {
            *p += 1;
            let mut a = Vec::new();
            ws(b, p);
            if b.get(*p) == Some(&']') {
                *p += 1;
                return Some(J::Arr(a));
            }
            loop {
                a.push(value(b, p)?);
                ws(b, p);
                match b.get(*p)? {
                    ',' => *p += 1,
                    ']' => {
                        *p += 1;
                        return Some(J::Arr(a));
                    },
                    _ => return None,
                }
            }
        },
        '"' => string(b, p),
        't' if b[*p..].starts_with(&['t', 'r', 'u', 'e']) => {
            *p += 4;
            Some(J::Bool(true))
        },
        'f' if b[*p..].starts_with(&['f', 'a', 'l', 's', 'e']) => {
            *p += 5;
            Some(J::Bool(false))
        },
        'n' if b[*p..].starts_with(&['n', 'u', 'l', 'l']) => {
            *p += 4;
            Some(J::Null)
        },
        _ => {
            let start = *p;
            while *p < b.len() && (b[*p].is_ascii_digit() || "+-.eE".contains(b[*p])) {
                *p += 1;
            }
            b[start..*p].iter().collect::<String>().parse::<f64>().ok().map(J::Num)
        },
    }
}
fn string(b: &[char], p: &mut usize) -> Option<J> {
    if b.get(*p) != Some(&'"') {
        return None;
    }
    *p += 1;
    let mut s = String::new();
    loop {
        let c = *b.get(*p)?;
        *p += 1;
        match c {
            '"' => return Some(J::Str(s)),
            '\\' => {
                let e = *b.get(*p)?;
                *p += 1;
                match e {
                    'n' => s.push('\n'),
                    't' => s.push('\t'),
                    'r' => s.push('\r'),
                    'b' => s.push('\u{8}'),
                    'f' => s.push('\u{c}'),
                    'u' => {
                        let h: String = b.get(*p..*p + 4)?.iter().collect();
                        *p += 4;
                        s.push(char::from_u32(u32::from_str_radix(&h, 16).ok()?).unwrap_or('\u{fffd}'));
                    },
                    other => s.push(other),
                }
            },
            c => s.push(c),
        }
    }
}

pub fn esc(s: &str) -> String {
    let mut o = String::from("\"");
    for c in s.chars() {
        match c {
            '"' => o.push_str("\\\""),
            '\\' => o.push_str("\\\\"),
            '\n' => o.push_str("\\n"),
            '\t' => o.push_str("\\t"),
            '\r' => o.push_str("\\r"),
            c if (c as u32) < 0x20 => o.push_str(&format!("\\u{:04x}", c as u32)),
            c => o.push(c),
        }
    }
    o.push('"');
    o
}
