//! primgen: produces the environment-primitive table used by Prim.tla.
//!
//! It does not link evalexpr.  Every entry is an independent fact about the hardware / libm /
//! Rust's float formatting and Unicode tables, e.g. `fadd(a, b) = c`.  The specification decides
//! which primitive is applied to which operands; this table supplies the primitive's value.
//!
//! Input (JSON file, argument 1): {"floats": [[w3,w2,w1,w0]..], "ints": [[sign,l1..l5]..],
//!                                 "strings": [[code points]..], "words": [[code points]..]}
//!                                 optional "pairs": [[a, b]..] - the operand pairs of the binary primitives
//!                                 (default: every ordered pair of floats and ints)
//! Output (JSON file, argument 2): {"<op>": {"<key>": result, ...}, ...} where key is TLC's ToString of
//! <<a, b>> (binary) or <<a>> (unary), e.g. `<<<<16368, 0, 0, 0>>, <<0, 0, 0, 0>>>>`.
use serde_json::{json, Map, Value as J};

fn words(f: f64) -> Vec<u64> {
    let b = f.to_bits();
    vec![(b >> 48) & 0xffff, (b >> 32) & 0xffff, (b >> 16) & 0xffff, b & 0xffff]
}
fn from_words(j: &J) -> f64 {
    let mut b = 0u64;
    for w in j.as_array().expect("float words") {
        b = (b << 16) | w.as_u64().expect("word");
    }
    f64::from_bits(b)
}
fn limbs_int(j: &J) -> i64 {
    let a = j.as_array().expect("limbs");
    let mut m: u128 = 0;
    for k in (1..6).rev() {
        m = (m << 15) | a[k].as_u64().unwrap() as u128;
    }
    if a[0].as_u64().unwrap() == 0 {
        m as i64
    } else {
        (m as i128).wrapping_neg() as i64
    }
}
fn tla_seq(xs: &[u64]) -> String {
    format!("<<{}>>", xs.iter().map(|x| x.to_string()).collect::<Vec<_>>().join(", "))
}
fn tla_j(j: &J) -> String {
    tla_seq(&j.as_array().unwrap().iter().map(|x| x.as_u64().unwrap()).collect::<Vec<_>>())
}
fn key1(a: &str) -> String {
    format!("<<{a}>>")
}
fn key2(a: &str, b: &str) -> String {
    format!("<<{a}, {b}>>")
}
fn text(j: &J) -> String {
    j.as_array().unwrap().iter().map(|c| char::from_u32(c.as_u64().unwrap() as u32).unwrap()).collect()
}
fn cps(s: &str) -> J {
    J::Array(s.chars().map(|c| json!(c as u32)).collect())
}

fn main() {
    let args: Vec<String> = std::env::args().collect();
    let input: J = serde_json::from_str(&std::fs::read_to_string(&args[1]).expect("read request")).expect("json");
    let empty = vec![];
    let floats: Vec<f64> = input["floats"].as_array().unwrap_or(&empty).iter().map(from_words).collect();
    let ints: Vec<&J> = input["ints"].as_array().unwrap_or(&empty).iter().collect();
    let mut all: Vec<f64> = floats.clone();
    for i in &ints {
        all.push(limbs_int(i) as f64);
    }
    // de-duplicate by bits
    all.sort_by_key(|f| f.to_bits());
    all.dedup_by_key(|f| f.to_bits());

    let mut out = Map::new();
    let bin: Vec<(&str, fn(f64, f64) -> f64)> = vec![
        ("fadd", |a, b| a + b),
        ("fsub", |a, b| a - b),
        ("fmul", |a, b| a * b),
        ("fdiv", |a, b| a / b),
        ("frem", |a, b| a % b),
        ("fpow", |a, b| a.powf(b)),
        ("flog", |a, b| a.log(b)),
        ("fatan2", |a, b| a.atan2(b)),
        ("fhypot", |a, b| a.hypot(b)),
    ];
    // binary primitives: every ordered pair of the pool, unless the request lists the pairs it needs ("pairs")
    let mut pairs: Vec<(f64, f64)> = Vec::new();
    match input.get("pairs").and_then(|p| p.as_array()) {
        Some(ps) => {
            for p in ps {
                pairs.push((from_words(&p[0]), from_words(&p[1])));
            }
        },
        None => {
            for a in &all {
                for b in &all {
                    pairs.push((*a, *b));
                }
            }
        },
    }
    for (name, f) in bin {
        let mut m = Map::new();
        for (a, b) in &pairs {
            m.insert(key2(&tla_seq(&words(*a)), &tla_seq(&words(*b))), json!(words(f(*a, *b))));
        }
        out.insert(name.into(), J::Object(m));
    }
    let un: Vec<(&str, fn(f64) -> f64)> = vec![
        ("ln", f64::ln),
        ("log2", f64::log2),
        ("log10", f64::log10),
        ("exp", f64::exp),
        ("exp2", f64::exp2),
        ("cos", f64::cos),
        ("acos", f64::acos),
        ("cosh", f64::cosh),
        ("acosh", f64::acosh),
        ("sin", f64::sin),
        ("asin", f64::asin),
        ("sinh", f64::sinh),
        ("asinh", f64::asinh),
        ("tan", f64::tan),
        ("atan", f64::atan),
        ("tanh", f64::tanh),
        ("atanh", f64::atanh),
        ("sqrt", f64::sqrt),
        ("cbrt", f64::cbrt),
        ("floor", f64::floor),
        ("round", f64::round),
        ("ceil", f64::ceil),
    ];
    for (name, f) in un {
        let mut m = Map::new();
        for a in &all {
            m.insert(key1(&tla_seq(&words(*a))), json!(words(f(*a))));
        }
        out.insert(name.into(), J::Object(m));
    }
    // Display of floats (Rust's shortest round-trip formatting), as code points
    let mut m = Map::new();
    for a in &all {
        m.insert(key1(&tla_seq(&words(*a))), cps(&a.to_string()));
    }
    out.insert("fdisplay".into(), J::Object(m));
    // Debug of floats (used inside error messages only)
    let mut m = Map::new();
    for a in &all {
        m.insert(key1(&tla_seq(&words(*a))), cps(&format!("{:?}", a)));
    }
    out.insert("fdebug".into(), J::Object(m));
    // i64 -> f64 (cross-check of Float64.IntToFloat)
    let mut m = Map::new();
    for i in &ints {
        m.insert(key1(&tla_j(i)), json!(words(limbs_int(i) as f64)));
    }
    out.insert("i2f".into(), J::Object(m));
    // case mapping and parsing of words
    let mut lo = Map::new();
    let mut up = Map::new();
    for s in input["strings"].as_array().unwrap_or(&empty) {
        let t = text(s);
        lo.insert(key1(&tla_j(s)), cps(&t.to_lowercase()));
        up.insert(key1(&tla_j(s)), cps(&t.to_uppercase()));
    }
    out.insert("lower".into(), J::Object(lo));
    out.insert("upper".into(), J::Object(up));
    let mut fp = Map::new();
    for s in input["words"].as_array().unwrap_or(&empty) {
        let t = text(s);
        // only words that denote a double are listed; asking for any other word is an error of the asking model
        if let Ok(f) = t.parse::<f64>() {
            fp.insert(key1(&tla_j(s)), json!(words(f)));
        }
    }
    out.insert("fparse".into(), J::Object(fp));
    std::fs::write(&args[2], serde_json::to_string(&J::Object(out)).unwrap()).expect("write table");
}
