fn main(){}
