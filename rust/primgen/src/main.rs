//! primgen: produces the environment-primitive table used by Prim.tla.
//!
//! It does not link evalexpr.  Every entry is an independent fact about the hardware / libm /
//! Rust's float formatting and Unicode tables, e.g. `fadd(a, b) = c`.  The specification decides
//! which primitive is applied to which operands; this table supplies the primitive's value.
//!
//! Input (JSON file, argument 1): {"floats": [[w3,w2,w1,w0]..], "ints": [[sign,l1..l5]..],
//!                                 "strings": [[code points]..], "words": [[code points]..]}
//!                                 optional "pairs": [[a, b]..] - the operand pairs of the binary primitives
//!                                 (default: every ordered pair of floats and ints)
//! It has no dependencies (own JSON reader): the same source is also built by /verif/primgen81 with the repository's pinned
//! toolchain, because libm results (cbrt, ...) differ between toolchains and a table must come from the toolchain that built the
//! execution it is compared with.
//! Output (JSON file, argument 2): {"<op>": {"<key>": result, ...}, ...} where key is TLC's ToString of
//! <<a, b>> (binary) or <<a>> (unary), e.g. `<<<<16368, 0, 0, 0>>, <<0, 0, 0, 0>>>>`.
mod json;
use json::{esc, J};

fn words(f: f64) -> Vec<u64> {
    let b = f.to_bits();
    vec![(b >> 48) & 0xffff, (b >> 32) & 0xffff, (b >> 16) & 0xffff, b & 0xffff]
}
fn from_words(j: &J) -> f64 {
    let mut b = 0u64;
    for w in j.arr() {
        b = (b << 16) | w.u64();
    }
    f64::from_bits(b)
}
fn limbs_int(j: &J) -> i64 {
    let a = j.arr();
    let mut m: u128 = 0;
    for k in (1..6).rev() {
        m = (m << 15) | a[k].u64() as u128;
    }
    if a[0].u64() == 0 {
        m as i64
    } else {
        (m as i128).wrapping_neg() as i64
    }
}
fn tla_seq(xs: &[u64]) -> String {
    format!("<<{}>>", xs.iter().map(|x| x.to_string()).collect::<Vec<_>>().join(", "))
}
fn tla_j(j: &J) -> String {
    tla_seq(&j.arr().iter().map(|x| x.u64()).collect::<Vec<_>>())
}
fn key1(a: &str) -> String {
    format!("<<{a}>>")
}
fn key2(a: &str, b: &str) -> String {
    format!("<<{a}, {b}>>")
}
fn nums(xs: &[u64]) -> String {
    format!("[{}]", xs.iter().map(|x| x.to_string()).collect::<Vec<_>>().join(","))
}
fn cps(s: &str) -> String {
    format!("[{}]", s.chars().map(|c| (c as u32).to_string()).collect::<Vec<_>>().join(","))
}

/// One table: key -> JSON text of the value (insertion order kept; later duplicates replace earlier ones).
#[derive(Default)]
struct Table(std::collections::BTreeMap<String, String>);
impl Table {
    fn insert(&mut self, k: String, v: String) {
        self.0.insert(k, v);
    }
    fn json(&self) -> String {
        format!("{{{}}}", self.0.iter().map(|(k, v)| format!("{}:{}", esc(k), v)).collect::<Vec<_>>().join(","))
    }
}

fn main() {
    let args: Vec<String> = std::env::args().collect();
    let input: J = json::parse(&std::fs::read_to_string(&args[1]).expect("read request")).expect("json");
    let floats: Vec<f64> = input.get("floats").arr().iter().map(from_words).collect();
    let ints: Vec<&J> = input.get("ints").arr().iter().collect();
    let mut all: Vec<f64> = floats.clone();
    for i in &ints {
        all.push(limbs_int(i) as f64);
    }
    // de-duplicate by bits
    all.sort_by_key(|f| f.to_bits());
    all.dedup_by_key(|f| f.to_bits());

    let mut out: Vec<(String, Table)> = Vec::new();
    let bin: Vec<(&str, fn(f64, f64) -> f64)> = vec![
        ("fadd", |a, b| a + b),
        ("fsub", |a, b| a - b),
        ("fmul", |a, b| a * b),
        ("fdiv", |a, b| a / b),
        ("frem", |a, b| a % b),
        ("fpow", |a, b| a.powf(b)),
        ("flog", |a, b| a.log(b)),
        ("fatan2", |a, b| a.atan2(b)),
        ("fhypot", |a, b| a.hypot(b)),
    ];
    // binary primitives: every ordered pair of the pool, unless the request lists the pairs it needs ("pairs")
    let mut pairs: Vec<(f64, f64)> = Vec::new();
    if input.has("pairs") {
        for p in input.get("pairs").arr() {
            pairs.push((from_words(&p.arr()[0]), from_words(&p.arr()[1])));
        }
    } else {
        for a in &all {
            for b in &all {
                pairs.push((*a, *b));
            }
        }
    }
    for (name, f) in bin {
        let mut m = Table::default();
        for (a, b) in &pairs {
            m.insert(key2(&tla_seq(&words(*a)), &tla_seq(&words(*b))), nums(&words(f(*a, *b))));
        }
        out.push((name.into(), m));
    }
    let un: Vec<(&str, fn(f64) -> f64)> = vec![
        ("ln", f64::ln),
        ("log2", f64::log2),
        ("log10", f64::log10),
        ("exp", f64::exp),
        ("exp2", f64::exp2),
        ("cos", f64::cos),
        ("acos", f64::acos),
        ("cosh", f64::cosh),
        ("acosh", f64::acosh),
        ("sin", f64::sin),
        ("asin", f64::asin),
        ("sinh", f64::sinh),
        ("asinh", f64::asinh),
        ("tan", f64::tan),
        ("atan", f64::atan),
        ("tanh", f64::tanh),
        ("atanh", f64::atanh),
        ("sqrt", f64::sqrt),
        ("cbrt", f64::cbrt),
        ("floor", f64::floor),
        ("round", f64::round),
        ("ceil", f64::ceil),
    ];
    for (name, f) in un {
        let mut m = Table::default();
        for a in &all {
            m.insert(key1(&tla_seq(&words(*a))), nums(&words(f(*a))));
        }
        out.push((name.into(), m));
    }
    // Display of floats (Rust's shortest round-trip formatting), as code points
    let mut m = Table::default();
    for a in &all {
        m.insert(key1(&tla_seq(&words(*a))), cps(&a.to_string()));
    }
    out.push(("fdisplay".into(), m));
    // Debug of floats (used inside error messages only)
    let mut m = Table::default();
    for a in &all {
        m.insert(key1(&tla_seq(&words(*a))), cps(&format!("{:?}", a)));
    }
    out.push(("fdebug".into(), m));
    // i64 -> f64 (cross-check of Float64.IntToFloat)
    let mut m = Table::default();
    for i in &ints {
        m.insert(key1(&tla_j(i)), nums(&words(limbs_int(i) as f64)));
    }
    out.push(("i2f".into(), m));
    // case mapping and parsing of words
    let mut lo = Table::default();
    let mut up = Table::default();
    for s in input.get("strings").arr() {
        let t = s.text();
        lo.insert(key1(&tla_j(s)), cps(&t.to_lowercase()));
        up.insert(key1(&tla_j(s)), cps(&t.to_uppercase()));
    }
    out.push(("lower".into(), lo));
    out.push(("upper".into(), up));
    let mut fp = Table::default();
    for s in input.get("words").arr() {
        let t = s.text();
        // only words that denote a double are listed; asking for any other word is an error of the asking model
        if let Ok(f) = t.parse::<f64>() {
            fp.insert(key1(&tla_j(s)), nums(&words(f)));
        }
    }
    out.push(("fparse".into(), fp));
    let text = format!("{{{}}}", out.iter().map(|(n, t)| format!("{}:{}", esc(n), t.json())).collect::<Vec<_>>().join(","));
    std::fs::write(&args[2], text).expect("write table");
}
