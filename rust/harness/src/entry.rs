//! The 48 evaluation entry points (24 string-level, 24 tree-level) behind one dispatcher.
//! Typed results are re-wrapped into `Value` (lossless), so every entry point yields `Result<V, E>`.
//! The dispatcher is one table: each row names the three functions of a result kind.
use crate::enc::{Tree, E, V};
use evalexpr::*;

#[derive(Clone, Copy, Debug, PartialEq, Eq)]
pub enum Kind {
    Value,
    String,
    Int,
    Float,
    Number,
    Boolean,
    Tuple,
    Empty,
}
pub const KINDS: [Kind; 8] =
    [Kind::Value, Kind::String, Kind::Int, Kind::Float, Kind::Number, Kind::Boolean, Kind::Tuple, Kind::Empty];

#[derive(Clone, Copy, Debug, PartialEq, Eq)]
pub enum Mode {
    Fresh,
    Imm,
    Mut,
}
pub const MODES: [Mode; 3] = [Mode::Fresh, Mode::Imm, Mode::Mut];

impl Kind {
    pub fn name(self) -> &'static str {
        match self {
            Kind::Value => "value",
            Kind::String => "string",
            Kind::Int => "int",
            Kind::Float => "float",
            Kind::Number => "number",
            Kind::Boolean => "boolean",
            Kind::Tuple => "tuple",
            Kind::Empty => "empty",
        }
    }
    pub fn parse(s: &str) -> Option<Kind> {
        KINDS.iter().copied().find(|k| k.name() == s)
    }
}
impl Mode {
    pub fn name(self) -> &'static str {
        match self {
            Mode::Fresh => "fresh",
            Mode::Imm => "imm",
            Mode::Mut => "mut",
        }
    }
    pub fn parse(s: &str) -> Option<Mode> {
        MODES.iter().copied().find(|k| k.name() == s)
    }
}

fn id(v: V) -> V {
    v
}
fn unit(_: ()) -> V {
    Value::Empty
}

macro_rules! string_table {
    ($kind:expr, $mode:expr, $src:expr, $ctx:expr; $( $k:ident => $fresh:ident, $imm:ident, $mutf:ident, $conv:expr );* $(;)?) => {
        match ($kind, $mode) {
            $(
                (Kind::$k, Mode::Fresh) => $fresh($src).map($conv),
                (Kind::$k, Mode::Imm) => $imm($src, &*$ctx).map($conv),
                (Kind::$k, Mode::Mut) => $mutf($src, $ctx).map($conv),
            )*
        }
    };
}

/// String-level entry points on a context that supports mutation.
pub fn call_string<C>(kind: Kind, mode: Mode, src: &str, ctx: &mut C) -> Result<V, E>
where
    C: ContextWithMutableVariables + Context<NumericTypes = DefaultNumericTypes>,
{
    string_table!(kind, mode, src, ctx;
        Value => eval, eval_with_context, eval_with_context_mut, id;
        String => eval_string, eval_string_with_context, eval_string_with_context_mut, Value::String;
        Int => eval_int, eval_int_with_context, eval_int_with_context_mut, Value::Int;
        Float => eval_float, eval_float_with_context, eval_float_with_context_mut, Value::Float;
        Number => eval_number, eval_number_with_context, eval_number_with_context_mut, Value::Float;
        Boolean => eval_boolean, eval_boolean_with_context, eval_boolean_with_context_mut, Value::Boolean;
        Tuple => eval_tuple, eval_tuple_with_context, eval_tuple_with_context_mut, Value::Tuple;
        Empty => eval_empty, eval_empty_with_context, eval_empty_with_context_mut, unit;
    )
}

/// String-level immutable entry points (any context).
pub fn call_string_imm<C>(kind: Kind, src: &str, ctx: &C) -> Result<V, E>
where
    C: Context<NumericTypes = DefaultNumericTypes>,
{
    match kind {
        Kind::Value => eval_with_context(src, ctx),
        Kind::String => eval_string_with_context(src, ctx).map(Value::String),
        Kind::Int => eval_int_with_context(src, ctx).map(Value::Int),
        Kind::Float => eval_float_with_context(src, ctx).map(Value::Float),
        Kind::Number => eval_number_with_context(src, ctx).map(Value::Float),
        Kind::Boolean => eval_boolean_with_context(src, ctx).map(Value::Boolean),
        Kind::Tuple => eval_tuple_with_context(src, ctx).map(Value::Tuple),
        Kind::Empty => eval_empty_with_context(src, ctx).map(unit),
    }
}

macro_rules! tree_table {
    ($kind:expr, $mode:expr, $t:expr, $ctx:expr; $( $k:ident => $fresh:ident, $imm:ident, $mutf:ident, $conv:expr );* $(;)?) => {
        match ($kind, $mode) {
            $(
                (Kind::$k, Mode::Fresh) => $t.$fresh().map($conv),
                (Kind::$k, Mode::Imm) => $t.$imm(&*$ctx).map($conv),
                (Kind::$k, Mode::Mut) => $t.$mutf($ctx).map($conv),
            )*
        }
    };
}

/// Tree-level entry points on a context that supports mutation.
pub fn call_tree<C>(kind: Kind, mode: Mode, tree: &Tree, ctx: &mut C) -> Result<V, E>
where
    C: ContextWithMutableVariables + Context<NumericTypes = DefaultNumericTypes>,
{
    tree_table!(kind, mode, tree, ctx;
        Value => eval, eval_with_context, eval_with_context_mut, id;
        String => eval_string, eval_string_with_context, eval_string_with_context_mut, Value::String;
        Int => eval_int, eval_int_with_context, eval_int_with_context_mut, Value::Int;
        Float => eval_float, eval_float_with_context, eval_float_with_context_mut, Value::Float;
        Number => eval_number, eval_number_with_context, eval_number_with_context_mut, Value::Float;
        Boolean => eval_boolean, eval_boolean_with_context, eval_boolean_with_context_mut, Value::Boolean;
        Tuple => eval_tuple, eval_tuple_with_context, eval_tuple_with_context_mut, Value::Tuple;
        Empty => eval_empty, eval_empty_with_context, eval_empty_with_context_mut, unit;
    )
}

/// Tree-level immutable entry points (any context).
pub fn call_tree_imm<C>(kind: Kind, tree: &Tree, ctx: &C) -> Result<V, E>
where
    C: Context<NumericTypes = DefaultNumericTypes>,
{
    match kind {
        Kind::Value => tree.eval_with_context(ctx),
        Kind::String => tree.eval_string_with_context(ctx).map(Value::String),
        Kind::Int => tree.eval_int_with_context(ctx).map(Value::Int),
        Kind::Float => tree.eval_float_with_context(ctx).map(Value::Float),
        Kind::Number => tree.eval_number_with_context(ctx).map(Value::Float),
        Kind::Boolean => tree.eval_boolean_with_context(ctx).map(Value::Boolean),
        Kind::Tuple => tree.eval_tuple_with_context(ctx).map(Value::Tuple),
        Kind::Empty => tree.eval_empty_with_context(ctx).map(unit),
    }
}
