//! Panics of the code under test are data, not tool errors: every call into evalexpr goes
//! through `guard`, which catches the unwind and records where it came from.
use std::cell::RefCell;
use std::panic::{catch_unwind, AssertUnwindSafe};

thread_local! {
    static LAST_PANIC: RefCell<Option<String>> = const { RefCell::new(None) };
}

pub fn install_hook() {
    std::panic::set_hook(Box::new(|info| {
        let loc = info.location().map(|l| format!("{}:{}", l.file(), l.line())).unwrap_or_default();
        let msg = if let Some(s) = info.payload().downcast_ref::<&str>() {
            s.to_string()
        } else if let Some(s) = info.payload().downcast_ref::<String>() {
            s.clone()
        } else {
            "<non-string panic payload>".to_string()
        };
        LAST_PANIC.with(|p| *p.borrow_mut() = Some(format!("{loc}: {msg}")));
    }));
}

/// Runs `f`; a panic is returned as `Err(site: message)`.
pub fn guard<T>(f: impl FnOnce() -> T) -> Result<T, String> {
    match catch_unwind(AssertUnwindSafe(f)) {
        Ok(v) => Ok(v),
        Err(_) => Err(LAST_PANIC.with(|p| p.borrow_mut().take()).unwrap_or_else(|| "panic".to_string())),
    }
}
