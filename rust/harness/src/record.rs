//! Code -> spec: seeded random drivers that exercise the real crate WITHOUT knowing any expected
//! result and log one event per public call (arguments, result, projected state afterwards) as
//! ndjson.  `Trace_Api.tla` validates every event against the actions of the specification.
use crate::ctx::*;
use crate::enc::*;
use crate::guard::guard;
use evalexpr::*;
use rand::rngs::StdRng;
use rand::seq::SliceRandom;
use rand::Rng;
use serde_json::{json, Value as J};
use std::io::Write;

pub struct Recorder {
    out: std::io::BufWriter<std::fs::File>,
    pub events: u64,
    pub floats: Vec<f64>,
    /// operand pairs of the binary float primitives; when non-empty primgen tabulates exactly these pairs
    pub pairs: Vec<(f64, f64)>,
    pub ints: Vec<i64>,
    pub words: Vec<String>,
    pub strings: Vec<String>,
    seen_messages: std::collections::HashSet<String>,
}

fn res_json(r: &Result<Result<V, E>, String>) -> J {
    let empty = enc_value(&Value::Empty);
    match r {
        Ok(Ok(v)) => json!({"p": "val", "v": enc_value(v), "e": no_err()}),
        Ok(Err(e)) => json!({"p": "err", "v": empty, "e": enc_error(e)}),
        Err(p) => json!({"p": "panic", "v": empty, "e": no_err(), "panic": p}),
    }
}

impl Recorder {
    pub fn new(path: &str) -> Self {
        Recorder {
            out: std::io::BufWriter::new(std::fs::File::create(path).expect("trace file")),
            events: 0,
            floats: vec![],
            pairs: vec![],
            ints: vec![],
            words: vec![],
            strings: vec![],
            seen_messages: Default::default(),
        }
    }
    pub fn emit(&mut self, ev: J) {
        writeln!(self.out, "{}", ev).expect("write event");
        self.events += 1;
    }
    /// Logs the Display text of an error value once (event `errmsg`), if every float it carries is in the primitive pool.
    pub fn note_error(&mut self, e: &E) {
        fn floats_of(v: &V, out: &mut Vec<f64>) {
            match v {
                Value::Float(f) => out.push(*f),
                Value::Tuple(k) => k.iter().for_each(|x| floats_of(x, out)),
                _ => {},
            }
        }
        let enc = enc_error(e);
        let mut fl = Vec::new();
        for k in ["a", "b"] {
            if let Some(v) = dec_value(&enc[k]) {
                floats_of(&v, &mut fl);
            }
        }
        if !fl.iter().all(|f| self.floats.iter().any(|p| p.to_bits() == f.to_bits())) {
            return;
        }
        let text = e.to_string();
        if self.seen_messages.insert(text.clone()) {
            self.emit(json!({"ev": "errmsg", "e": enc, "text": cps(&text)}));
        }
    }

    pub fn finish(mut self, primreq: &str) {
        self.out.flush().expect("flush");
        self.floats.sort_by_key(|f| f.to_bits());
        self.floats.dedup_by_key(|f| f.to_bits());
        let mut req = json!({
            "floats": self.floats.iter().map(|f| float_words(*f)).collect::<Vec<_>>(),
            "ints": self.ints.iter().map(|i| int_limbs(*i)).collect::<Vec<_>>(),
            "strings": self.strings.iter().map(|s| cps(s)).collect::<Vec<_>>(),
            "words": self.words.iter().map(|s| cps(s)).collect::<Vec<_>>(),
        });
        if !self.pairs.is_empty() {
            self.pairs.sort_by_key(|(a, b)| (a.to_bits(), b.to_bits()));
            self.pairs.dedup_by_key(|(a, b)| (a.to_bits(), b.to_bits()));
            req["pairs"] = J::Array(self.pairs.iter().map(|(a, b)| json!([float_words(*a), float_words(*b)])).collect());
        }
        std::fs::write(primreq, req.to_string()).expect("primreq");
    }
}

fn ctx_json(vars: &[(String, V)], funcs: &[(String, &str, V)], nb: bool) -> J {
    json!({"kind": "HashMap", "nb": nb,
           "vars": vars.iter().map(|(n, v)| json!({"n": cps(n), "v": enc_value(v)})).collect::<Vec<_>>(),
           "funcs": funcs.iter().map(|(n, b, v)| json!({"n": cps(n), "b": b, "v": enc_value(v)})).collect::<Vec<_>>()})
}

fn log_json(calls: &[(String, V)]) -> J {
    J::Array(calls.iter().map(|(n, a)| json!({"n": cps(n), "a": enc_value(a)})).collect())
}

// ------------------------------------------------------------------------------------------------
// random values
// ------------------------------------------------------------------------------------------------
const EDGE_INTS: [i64; 22] = [
    i64::MIN,
    i64::MIN + 1,
    i64::MAX,
    i64::MAX - 1,
    0,
    1,
    -1,
    2,
    -2,
    3,
    10,
    63,
    64,
    1 << 31,
    1 << 32,
    (1 << 53) + 1,
    -(1 << 53) - 1,
    1 << 62,
    -(1 << 62),
    3037000499,
    3037000500,
    -3037000500,
];

pub fn rand_int(rng: &mut StdRng) -> i64 {
    match rng.gen_range(0..10) {
        0..=2 => *EDGE_INTS.choose(rng).unwrap(),
        3..=4 => rng.gen_range(-20..20),
        5 => rng.gen::<i32>() as i64,
        6 => {
            let e: i64 = *EDGE_INTS.choose(rng).unwrap();
            e.wrapping_add(rng.gen_range(-3..=3))
        },
        _ => rng.gen::<i64>() >> rng.gen_range(0..63),
    }
}

pub fn rand_float(rng: &mut StdRng) -> f64 {
    match rng.gen_range(0..10) {
        0 => *[0.0, -0.0, 1.0, -1.0, 0.5, 1.5, f64::INFINITY, f64::NEG_INFINITY, f64::NAN, f64::MAX, f64::MIN_POSITIVE, 5e-324]
            .choose(rng)
            .unwrap(),
        1..=3 => (rng.gen_range(-1000..1000) as f64) / 8.0,
        4 => rand_int(rng) as f64,
        _ => f64::from_bits(rng.gen::<u64>()),
    }
}

fn rand_string(rng: &mut StdRng) -> String {
    let pool = ['a', 'b', 'Z', ' ', '\t', '"', '\\', '/', '*', '+', '\u{e4}', '\u{df}', '\u{1F600}', '\u{3000}', '1', 'e', '\n'];
    (0..rng.gen_range(0..6)).map(|_| *pool.choose(rng).unwrap()).collect()
}

// ------------------------------------------------------------------------------------------------
// generator "ops": single operator applications on random operands (C03)
// ------------------------------------------------------------------------------------------------
const BIN_OPS: [&str; 14] = ["+", "-", "*", "/", "%", "^", "<", ">", "<=", ">=", "==", "!=", "&&", "||"];

pub fn gen_ops(rec: &mut Recorder, rng: &mut StdRng, n: usize) {
    // integers: full range, no environment primitives needed; floats: a random pool whose pairs primgen tabulates
    let fpool: Vec<f64> = (0..40).map(|_| rand_float(rng)).collect();
    let ipool: Vec<i64> = (0..30).map(|_| rand_int(rng)).collect();
    rec.floats.extend(fpool.iter());
    rec.ints.extend(ipool.iter());
    for k in 0..n {
        let (a, b): (V, V) = match k % 4 {
            0 | 1 => (Value::Int(rand_int(rng)), Value::Int(rand_int(rng))),
            2 => {
                let x = if rng.gen_bool(0.5) { Value::Float(*fpool.choose(rng).unwrap()) } else { Value::Int(*ipool.choose(rng).unwrap()) };
                let y = if rng.gen_bool(0.7) { Value::Float(*fpool.choose(rng).unwrap()) } else { Value::Int(*ipool.choose(rng).unwrap()) };
                (x, y)
            },
            _ => {
                let pick = |rng: &mut StdRng| -> V {
                    match rng.gen_range(0..6) {
                        0 => Value::Int(rand_int(rng)),
                        1 => Value::String(rand_string(rng)),
                        2 => Value::Boolean(rng.gen_bool(0.5)),
                        3 => Value::Empty,
                        4 => Value::Tuple(vec![Value::Int(rand_int(rng)), Value::String(rand_string(rng))]),
                        _ => Value::String(rand_string(rng)),
                    }
                };
                (pick(rng), pick(rng))
            },
        };
        // `^` always goes through floats: only on pool members
        let both_pool = |v: &V| match v {
            Value::Float(f) => fpool.iter().any(|p| p.to_bits() == f.to_bits()),
            Value::Int(i) => ipool.contains(i),
            _ => true,
        };
        let mut op = *BIN_OPS.choose(rng).unwrap();
        if op == "^" && !(both_pool(&a) && both_pool(&b)) {
            op = "*";
        }
        let unary = rng.gen_range(0..8) == 0;
        let src = if unary { format!("{} a", if rng.gen_bool(0.5) { "-" } else { "!" }) } else { format!("a {op} b") };
        let vars = vec![("a".to_string(), a), ("b".to_string(), b)];
        rec.emit(json!({"ev": "ctx", "slot": 0, "ctx": ctx_json(&vars, &[], false)}));
        let mut c = HashMapContext::<DefaultNumericTypes>::new();
        for (n, v) in &vars {
            c.set_value(n.clone(), v.clone()).unwrap();
        }
        let r = guard(|| eval_with_context(&src, &c));
        let post = json!({"nb": false, "vars": vars.iter().map(|(n, v)| json!({"n": cps(n), "v": enc_value(v)})).collect::<Vec<_>>(), "funcs": []});
        rec.emit(json!({"ev": "eval", "slot": 0, "src": cps(&src), "level": "string", "ek": "value", "mode": "imm",
                        "res": res_json(&r), "post": post, "log": []}));
        if let Ok(Err(e)) = &r {
            rec.note_error(e);
        }
    }
}

// ------------------------------------------------------------------------------------------------
// generator "programs": random well-formed programs with side effects (C02 C05 C08 C14)
// ------------------------------------------------------------------------------------------------
#[derive(Clone, Debug)]
enum Ast {
    Int(u32),
    Str(String),
    Bool(bool),
    Empty,
    Read(String),
    Assign(String, &'static str, Box<Ast>),
    Call(String, Box<Ast>),
    Prefix(&'static str, Box<Ast>),
    Bin(&'static str, Box<Ast>, Box<Ast>),
    Tuple(Vec<Ast>),
    Chain(Vec<Ast>),
}

fn prec(op: &str) -> i32 {
    match op {
        "^" => 120,
        "*" | "/" | "%" => 100,
        "+" | "-" => 95,
        "<" | ">" | "<=" | ">=" | "==" | "!=" => 80,
        "&&" => 75,
        "||" => 70,
        _ => 50,
    }
}
fn ast_prec(a: &Ast) -> i32 {
    match a {
        Ast::Bin(op, ..) => prec(op),
        Ast::Assign(..) => 50,
        Ast::Prefix(..) => 110,
        Ast::Tuple(_) => 40,
        Ast::Chain(_) => 0,
        _ => 200,
    }
}

const VARS: [&str; 4] = ["x", "y", "zed", "k_1"];
const FUNCS: [&str; 3] = ["f", "g", "h"];
const SAFE_BUILTINS: [&str; 9] = ["min", "max", "len", "typeof", "if", "contains", "bitand", "str::from", "math::abs"];
const PLAIN_OPS: [&str; 13] = ["+", "-", "*", "/", "%", "<", ">", "<=", ">=", "==", "!=", "&&", "||"];
const ASSIGN_OPS: [&str; 8] = ["=", "=", "=", "+=", "-=", "*=", "&&=", "||="];

fn gen_ast(rng: &mut StdRng, depth: u32, allow_seq: bool) -> Ast {
    if depth == 0 || rng.gen_range(0..10) < 3 {
        return match rng.gen_range(0..8) {
            0..=2 => Ast::Int(rng.gen_range(0..12)),
            3 => Ast::Str(rand_string(rng).replace('\n', " ")),
            4 => Ast::Bool(rng.gen_bool(0.5)),
            5 => Ast::Empty,
            _ => Ast::Read(VARS.choose(rng).unwrap().to_string()),
        };
    }
    match rng.gen_range(0..12) {
        0..=3 => Ast::Bin(PLAIN_OPS.choose(rng).unwrap(), Box::new(gen_ast(rng, depth - 1, false)), Box::new(gen_ast(rng, depth - 1, false))),
        4 => Ast::Prefix(if rng.gen_bool(0.6) { "-" } else { "!" }, Box::new(gen_ast(rng, depth - 1, false))),
        5..=6 => {
            let rhs = gen_ast(rng, depth - 1, false);
            // an assignment as the right operand of an assignment is only specified for `=` under `=`
            let op = if matches!(rhs, Ast::Assign(..)) { "=" } else { *ASSIGN_OPS.choose(rng).unwrap() };
            let rhs = match (&rhs, op) {
                (Ast::Assign(_, o, _), "=") if *o != "=" => Ast::Int(1),
                _ => rhs,
            };
            Ast::Assign(VARS.choose(rng).unwrap().to_string(), op, Box::new(rhs))
        },
        7 => {
            let name = if rng.gen_bool(0.7) { FUNCS.choose(rng).unwrap().to_string() } else { SAFE_BUILTINS.choose(rng).unwrap().to_string() };
            let arg = if rng.gen_bool(0.4) {
                Ast::Tuple((0..rng.gen_range(2..4)).map(|_| gen_ast(rng, depth - 1, false)).collect())
            } else {
                gen_ast(rng, depth - 1, false)
            };
            Ast::Call(name, Box::new(arg))
        },
        8..=9 if allow_seq || rng.gen_bool(0.3) => Ast::Tuple((0..rng.gen_range(2..4)).map(|_| gen_ast(rng, depth - 1, false)).collect()),
        10..=11 if allow_seq || rng.gen_bool(0.3) => {
            Ast::Chain((0..rng.gen_range(2..5)).map(|_| gen_ast(rng, depth - 1, true)).collect())
        },
        _ => Ast::Bin(PLAIN_OPS.choose(rng).unwrap(), Box::new(gen_ast(rng, depth - 1, false)), Box::new(gen_ast(rng, depth - 1, false))),
    }
}

/// Token texts of an AST with the parentheses the precedence table requires plus random redundant ones.
fn render(a: &Ast, min: i32, rng: &mut StdRng, out: &mut Vec<String>) {
    let need = ast_prec(a) < min;
    let extra = !need && rng.gen_range(0..8) == 0;
    if matches!(a, Ast::Empty) {
        out.push("(".into());
        out.push(")".into());
        return;
    }
    if need || extra {
        out.push("(".into());
        render_inline(a, rng, out);
        out.push(")".into());
    } else {
        render_bare(a, rng, out);
    }
}
fn render_inline(a: &Ast, rng: &mut StdRng, out: &mut Vec<String>) {
    match a {
        Ast::Chain(es) => {
            for (i, e) in es.iter().enumerate() {
                if i > 0 {
                    out.push(";".into());
                }
                match e {
                    Ast::Tuple(_) => render_inline(e, rng, out),
                    Ast::Empty => {},
                    _ => render(e, 50, rng, out),
                }
            }
        },
        Ast::Tuple(es) => {
            for (i, e) in es.iter().enumerate() {
                if i > 0 {
                    out.push(",".into());
                }
                if !matches!(e, Ast::Empty) {
                    render(e, 50, rng, out);
                }
            }
        },
        Ast::Empty => {},
        _ => render_bare(a, rng, out),
    }
}
fn quote(s: &str) -> String {
    let mut q = String::from("\"");
    for c in s.chars() {
        if c == '"' || c == '\\' {
            q.push('\\');
        }
        q.push(c);
    }
    q.push('"');
    q
}
fn render_bare(a: &Ast, rng: &mut StdRng, out: &mut Vec<String>) {
    match a {
        Ast::Int(i) => out.push(if rng.gen_range(0..6) == 0 { format!("0x{:x}", i) } else { i.to_string() }),
        Ast::Str(s) => out.push(quote(s)),
        Ast::Bool(b) => out.push(b.to_string()),
        Ast::Read(n) => out.push(n.clone()),
        Ast::Assign(n, op, rhs) => {
            out.push(n.clone());
            out.push(op.to_string());
            render(rhs, if *op == "=" { 50 } else { 51 }, rng, out);
        },
        Ast::Call(n, arg) => {
            out.push(n.clone());
            let simple = matches!(**arg, Ast::Int(_) | Ast::Str(_) | Ast::Bool(_) | Ast::Read(_) | Ast::Call(..));
            if simple && rng.gen_bool(0.3) {
                render_bare(arg, rng, out);
            } else {
                out.push("(".into());
                render_inline(arg, rng, out);
                out.push(")".into());
            }
        },
        Ast::Prefix(op, x) => {
            out.push(op.to_string());
            render(x, 110, rng, out);
        },
        Ast::Bin(op, l, r) => {
            let p = prec(op);
            render(l, p, rng, out);
            out.push(op.to_string());
            render(r, p + 1, rng, out);
        },
        Ast::Tuple(_) | Ast::Chain(_) | Ast::Empty => {
            out.push("(".into());
            render_inline(a, rng, out);
            out.push(")".into());
        },
    }
}

/// Joins token texts with random separators that never let neighbours fuse.
fn join_tokens(toks: &[String], rng: &mut StdRng) -> String {
    let seps = [" ", "  ", "\t", "\n", "\u{a0}", "\u{2003}", " /* c */ ", "/**/", " // line\n", "\u{3000}"];
    let mut s = String::new();
    for (i, t) in toks.iter().enumerate() {
        if i > 0 {
            let prev = &toks[i - 1];
            let punct = |x: &str| matches!(x, "(" | ")" | "," | ";");
            if (punct(prev) || punct(t)) && rng.gen_bool(0.5) {
                // no separator needed next to a parenthesis, comma or semicolon
            } else if prev == "/" {
                s.push(' ');
            } else {
                s.push_str(seps.choose(rng).unwrap());
            }
        }
        s.push_str(t);
    }
    s
}

pub fn gen_programs(rec: &mut Recorder, rng: &mut StdRng, n: usize) {
    let log: Log = Default::default();
    let behaviours: Vec<(String, &str, V)> = vec![
        ("f".into(), "id", Value::Empty),
        ("g".into(), "const", Value::Int(7)),
        ("h".into(), "fail", Value::Empty),
    ];
    let probe: Vec<String> = vec!["f".into(), "g".into(), "h".into(), "never_defined".into()];
    let mut c = HashMapContext::<DefaultNumericTypes>::new();
    let mut fresh = true;
    // WIDE programs first (the random ASTs below are deep rather than wide): many groups, long tuples and chains, many calls,
    // nesting with a chain and a tuple open at every level.  A limit, a counter or a folding pass that only bites from a
    // certain size on shows here; the values are the specification's, like everything else in the trace.
    {
        let size = 60 + rng.gen_range(0..30);
        let mut wide: Vec<String> = Vec::new();
        wide.push((0..size).map(|_| "(1)".to_string()).collect::<Vec<_>>().join(" + "));
        wide.push(format!("({})", (0..size).map(|i| (i % 7).to_string()).collect::<Vec<_>>().join(", ")));
        wide.push(format!("({}, (8, 9), , \"s\")", (1..9).map(|i| i.to_string()).collect::<Vec<_>>().join(", ")));
        wide.push((0..size).map(|i| format!("x = {}", i % 5)).collect::<Vec<_>>().join("; ") + "; x");
        wide.push((0..size / 2).map(|i| format!("f({})", i % 3)).collect::<Vec<_>>().join(" + "));
        let depth = 20 + rng.gen_range(0..10);
        wide.push(format!("{}1{}", "(".repeat(depth), ")".repeat(depth)));
        wide.push(format!("{}1{}", "f(".repeat(depth), ")".repeat(depth)));
        wide.push(format!("{}7{}", "0; 1, (".repeat(depth), ")".repeat(depth)));
        wide.push(format!("{}7{}", "-(".repeat(depth), ")".repeat(depth)));
        c = HashMapContext::new();
        for (n, b, v) in &behaviours {
            c.set_function(n.clone(), make_function(n, b, Some(v.clone()), &log)).unwrap();
        }
        rec.emit(json!({"ev": "ctx", "slot": 0, "ctx": ctx_json(&[], &behaviours, false)}));
        for src in wide {
            log.lock().unwrap().clear();
            let tree = guard(|| build_operator_tree::<DefaultNumericTypes>(&src));
            let r = guard(|| eval_with_context_mut(&src, &mut c));
            let calls: Vec<(String, V)> = log.lock().unwrap().clone();
            let post = project_hashmap(&c, &probe, &log).unwrap_or_else(|e| json!({"error": e}));
            let mut ev = json!({"ev": "eval", "slot": 0, "src": cps(&src), "level": "string", "ek": "value", "mode": "mut",
                                "res": res_json(&r), "post": post, "log": log_json(&calls)});
            if let Ok(Ok(t)) = &tree {
                ev["tree"] = enc_tree(&normalise(t));
            }
            rec.emit(ev);
        }
    }
    for k in 0..n {
        if fresh || k % 25 == 0 {
            c = HashMapContext::new();
            for (n, b, v) in &behaviours {
                c.set_function(n.clone(), make_function(n, b, Some(v.clone()), &log)).unwrap();
            }
            let vars: Vec<(String, V)> = if rng.gen_bool(0.5) { vec![("x".into(), Value::Int(rng.gen_range(0..5)))] } else { vec![] };
            for (n, v) in &vars {
                c.set_value(n.clone(), v.clone()).unwrap();
            }
            rec.emit(json!({"ev": "ctx", "slot": 0, "ctx": ctx_json(&vars, &behaviours, false)}));
            fresh = false;
        }
        let depth = rng.gen_range(1..6);
        let ast = gen_ast(rng, depth, true);
        let mut toks = Vec::new();
        render_inline(&ast, rng, &mut toks);
        let src = join_tokens(&toks, rng);
        log.lock().unwrap().clear();
        let tree = guard(|| build_operator_tree::<DefaultNumericTypes>(&src));
        // any of the 48 entry points: string or tree level, typed or untyped, fresh / shared / mutable context
        use crate::entry::*;
        let mode = match rng.gen_range(0..10) {
            0..=5 => Mode::Mut,
            6..=7 => Mode::Imm,
            _ => Mode::Fresh,
        };
        let kind = if rng.gen_bool(0.6) { Kind::Value } else { KINDS[rng.gen_range(0..KINDS.len())] };
        let tree_level = rng.gen_bool(0.4);
        let r = guard(|| {
            if tree_level {
                match build_operator_tree::<DefaultNumericTypes>(&src) {
                    Ok(t) => call_tree(kind, mode, &t, &mut c),
                    Err(e) => Err(e),
                }
            } else {
                call_string(kind, mode, &src, &mut c)
            }
        });
        let (mode, kind_name, level) = (mode.name(), kind.name(), if tree_level { "tree" } else { "string" });
        let calls: Vec<(String, V)> = log.lock().unwrap().clone();
        let post = match project_hashmap(&c, &probe, &log) {
            Ok(p) => p,
            Err(e) => json!({"error": e}),
        };
        let mut ev = json!({"ev": "eval", "slot": 0, "src": cps(&src), "level": level, "ek": kind_name, "mode": mode,
                            "res": res_json(&r), "post": post, "log": log_json(&calls)});
        if let Ok(Ok(t)) = &tree {
            ev["tree"] = enc_tree(&normalise(t));
        }
        rec.emit(ev);
        if let Ok(Err(e)) = &r {
            rec.note_error(e);
        }
        if r.is_err() {
            fresh = true;
        }
    }
}

// ------------------------------------------------------------------------------------------------
// generator "histories": long random context histories on two slots (C04)
// ------------------------------------------------------------------------------------------------
fn rand_value(rng: &mut StdRng, depth: u32) -> V {
    match rng.gen_range(0..8) {
        0..=1 => Value::Int(rand_int(rng)),
        2 => Value::Float(rand_float(rng)),
        3 => Value::String(rand_string(rng)),
        4 => Value::Boolean(rng.gen_bool(0.5)),
        5 => Value::Empty,
        _ if depth > 0 => Value::Tuple((0..rng.gen_range(0..4)).map(|_| rand_value(rng, depth - 1)).collect()),
        _ => Value::Int(rand_int(rng)),
    }
}

/// Source text of a value, if it has one that needs no float parsing or arithmetic in the specification.
fn literal_of(v: &V) -> Option<String> {
    match v {
        Value::Int(i) if *i >= 0 => Some(i.to_string()),
        Value::Int(i) if *i > i64::MIN => Some(format!("-{}", -i)),
        Value::String(s) => Some(quote(s)),
        Value::Boolean(b) => Some(b.to_string()),
        Value::Empty => Some("()".into()),
        Value::Tuple(k) if k.len() >= 2 => {
            let parts: Option<Vec<String>> = k.iter().map(literal_of).collect();
            parts.map(|p| format!("({})", p.join(", ")))
        },
        _ => None,
    }
}

pub fn gen_histories(rec: &mut Recorder, rng: &mut StdRng, n: usize) {
    let names: Vec<String> = (0..12).map(|i| format!("v{i}")).collect();
    let fnames = ["f", "v0", "max"];
    let log: Log = Default::default();
    let mut slots: Vec<Option<HashMapContext<DefaultNumericTypes>>> = vec![None, None];
    let probe: Vec<String> = fnames.iter().map(|s| s.to_string()).chain(std::iter::once("never_defined".to_string())).collect();
    let project = |c: &HashMapContext<DefaultNumericTypes>, log: &Log| project_hashmap(c, &probe, log).unwrap_or_else(|e| json!({"error": e}));
    // a few expressions are precompiled ONCE and the same trees are evaluated again and again while the contexts change under
    // them (functions bound, re-bound and cleared, the switch toggled, clones): a tree must not remember a context
    let fixed_sources = ["max(1, 2)", "f(2)", "v0", "len(\"ab\")", "max(v1, 2), typeof(v1)", "v0(3)", "min(2, 1), max 5"];
    let fixed_trees: Vec<Option<Tree>> = fixed_sources.iter().map(|s| build_operator_tree::<DefaultNumericTypes>(s).ok()).collect();
    for k in 0..n {
        if k % 200 == 0 {
            slots = vec![Some(HashMapContext::new()), None];
            rec.emit(json!({"ev": "ctx", "slot": 0, "ctx": ctx_json(&[], &[], false)}));
            rec.emit(json!({"ev": "ctx", "slot": 1, "ctx": {"kind": "Absent", "nb": false, "vars": [], "funcs": []}}));
        }
        let live: Vec<usize> = (0..2).filter(|s| slots[*s].is_some()).collect();
        let s = *live.choose(rng).unwrap();
        let name = names.choose(rng).unwrap().clone();
        let pick = rng.gen_range(0..20);
        if pick == 0 {
            // every second time onto an existing context with `Clone::clone_from` (a hand-written clone_from is a second
            // implementation of cloning)
            let c = slots[s].clone();
            match (c, slots[1 - s].as_mut()) {
                (Some(src), Some(dst)) if rng.gen_bool(0.5) => dst.clone_from(&src),
                (src, _) => slots[1 - s] = src,
            }
            let post = project(slots[1 - s].as_ref().unwrap(), &log);
            rec.emit(json!({"ev": "clone", "slot": s, "to": 1 - s, "post": post}));
            continue;
        }
        let c = slots[s].as_mut().unwrap();
        match pick {
            1 => {
                c.clear_variables();
                rec.emit(json!({"ev": "clear_variables", "slot": s, "post": project(c, &log)}));
            },
            2 => {
                c.clear_functions();
                rec.emit(json!({"ev": "clear_functions", "slot": s, "post": project(c, &log)}));
            },
            3 if rng.gen_bool(0.3) => {
                c.clear();
                rec.emit(json!({"ev": "clear", "slot": s, "post": project(c, &log)}));
            },
            4 => {
                let f = fnames.choose(rng).unwrap().to_string();
                let (b, v) = if rng.gen_bool(0.5) { ("id", Value::Empty) } else { ("const", Value::Int(rng.gen_range(0..9))) };
                c.set_function(f.clone(), make_function(&f, b, Some(v.clone()), &log)).unwrap();
                rec.emit(json!({"ev": "set_function", "slot": s, "n": cps(&f), "b": b, "v": enc_value(&v), "post": project(c, &log)}));
            },
            5 => {
                let d = rng.gen_bool(0.5);
                let r = guard(|| c.set_builtin_functions_disabled(d).map(|_| Value::Empty));
                rec.emit(json!({"ev": "set_builtins", "slot": s, "d": d, "res": res_json(&r), "post": project(c, &log)}));
            },
            6..=7 => {
                let r: Result<Result<V, E>, String> = guard(|| Ok(c.get_value(&name).cloned().unwrap_or(Value::Empty)));
                let none = c.get_value(&name).is_none();
                let mut rj = res_json(&r);
                if none {
                    rj["p"] = json!("none");
                }
                rec.emit(json!({"ev": "get_value", "slot": s, "n": cps(&name), "res": rj}));
            },
            8..=12 => {
                let v = rand_value(rng, 2);
                let r = guard(|| c.set_value(name.clone(), v.clone()).map(|_| Value::Empty));
                rec.emit(json!({"ev": "set_value", "slot": s, "n": cps(&name), "v": enc_value(&v), "res": res_json(&r), "post": project(c, &log)}));
            },
            13..=14 => {
                let i = rng.gen_range(0..fixed_sources.len());
                if let Some(t) = &fixed_trees[i] {
                    log.lock().unwrap().clear();
                    let imm = rng.gen_bool(0.5);
                    let r = guard(|| if imm { t.eval_with_context(&*c) } else { t.eval_with_context_mut(c) });
                    let calls: Vec<(String, V)> = log.lock().unwrap().clone();
                    rec.emit(json!({"ev": "eval", "slot": s, "src": cps(fixed_sources[i]), "level": "tree", "ek": "value",
                                    "mode": if imm { "imm" } else { "mut" }, "res": res_json(&r), "post": project(c, &log), "log": log_json(&calls)}));
                }
            },
            _ => {
                // an expression: assignment of a literal, an op-assignment, a read, or a call
                let src = match rng.gen_range(0..6) {
                    0..=1 => match literal_of(&rand_value(rng, 1)) {
                        Some(l) => format!("{name} = {l}"),
                        None => format!("{name} = 1"),
                    },
                    // float arithmetic needs environment primitives: op-assignments only on non-float variables
                    2 if !matches!(c.get_value(&name), Some(Value::Float(_))) => {
                        format!("{name} {} {}", ["+=", "-=", "*=", "/=", "%="].choose(rng).unwrap(), rng.gen_range(0..4))
                    },
                    3 => format!("{name} {} {}", ["&&=", "||="].choose(rng).unwrap(), rng.gen_bool(0.5)),
                    4 | 2 => name.clone(),
                    _ => format!("{}({}, 2)", fnames.choose(rng).unwrap(), names.choose(rng).unwrap()),
                };
                log.lock().unwrap().clear();
                let r = guard(|| eval_with_context_mut(&src, c));
                let calls: Vec<(String, V)> = log.lock().unwrap().clone();
                rec.emit(json!({"ev": "eval", "slot": s, "src": cps(&src), "level": "string", "ek": "value", "mode": "mut",
                                "res": res_json(&r), "post": project(c, &log), "log": log_json(&calls)}));
            },
        }
    }
}

// ------------------------------------------------------------------------------------------------
// generator "fuzz": arbitrary short strings through precompilation (C01, C13)
// ------------------------------------------------------------------------------------------------
pub fn fuzz_string(rng: &mut StdRng, len: usize) -> String {
    let toks = ["1", "x", "f", "true", "\"s\"", "\"", "\\", "+", "-", "*", "/", "%", "^", "(", ")", ",", ";", "=", "==", "!", "!=", "<", ">=", "&&", "||", "&", "|",
                "+=", "&&=", " ", "\n", "//", "/*", "*/", "0x1f", "1e", "1e-3", ".5", "9223372036854775808", "\u{e4}", "\u{1F600}", "\u{a0}", "min", "len", "::"];
    let mut s = String::new();
    while s.chars().count() < len {
        s.push_str(toks.choose(rng).unwrap());
        if rng.gen_bool(0.3) {
            s.push(' ');
        }
    }
    s.chars().take(len).collect()
}

pub fn gen_fuzz(rec: &mut Recorder, rng: &mut StdRng, n: usize) {
    for _ in 0..n {
        let len = rng.gen_range(0..40);
        let src = fuzz_string(rng, len);
        let r = guard(|| build_operator_tree::<DefaultNumericTypes>(&src));
        let mut ev = json!({"ev": "build", "src": cps(&src), "deficient": false});
        // float-looking words of the input: the specification's lexer needs their value as an environment primitive
        // the lexer's words are delimited by the special characters, whitespace and quotes; '+' and '-' may join three pieces
        for w in src.split(|c: char| c.is_whitespace() || "*/%^(),;=!<>&|\"".contains(c)) {
            for part in candidate_words(w) {
                if part.chars().any(|c| c.is_ascii_digit()) && part.chars().all(|c| c.is_ascii_digit() || ".eE+-".contains(c)) {
                    rec.words.push(part);
                }
            }
        }
        match &r {
            Ok(Ok(t)) => {
                ev["res"] = json!({"p": "val", "v": enc_value(&Value::Empty), "e": no_err()});
                ev["tree"] = enc_tree(&normalise(t));
                let failing = arity_deficient(t)
                    && matches!(guard(|| t.eval_with_context_mut(&mut crate::replay::populated())), Ok(Err(_)))
                    && matches!(guard(|| t.eval()), Ok(Err(_)));
                ev["deficient"] = json!(failing);
            },
            Ok(Err(e)) => ev["res"] = json!({"p": "err", "v": enc_value(&Value::Empty), "e": enc_error(e)}),
            Err(p) => ev["res"] = json!({"p": "panic", "v": enc_value(&Value::Empty), "e": no_err(), "panic": p}),
        }
        // C01: the same input through every entry point and formatter; a panic anywhere replaces the recorded outcome
        let tree = match &r {
            Ok(Ok(t)) => Some(t),
            _ => None,
        };
        if let Err(p) = crate::replay::exercise_everything(&src, tree) {
            ev["res"] = json!({"p": "panic", "v": enc_value(&Value::Empty), "e": no_err(), "panic": p});
        }
        rec.emit(ev);
    }
}

/// Runs of '+'/'-'-delimited segments of a word (an over-approximation of the lexer's float candidates).
pub fn candidate_words(w: &str) -> Vec<String> {
    let mut segs: Vec<String> = vec![String::new()];
    for c in w.chars() {
        if c == '+' || c == '-' {
            segs.push(c.to_string());
            segs.push(String::new());
        } else {
            segs.last_mut().unwrap().push(c);
        }
    }
    let mut out = Vec::new();
    let mut i = 0;
    while i < segs.len() {
        let mut j = i;
        while j < segs.len() {
            out.push(segs[i..=j].concat());
            j += 2;
        }
        i += 2;
    }
    out
}

// ------------------------------------------------------------------------------------------------
// generator "threads": real threads sharing precompiled trees and one context (C15)
// ------------------------------------------------------------------------------------------------
pub fn gen_threads(rec: &mut Recorder, rng: &mut StdRng, iters: usize, nthreads: usize) {
    use crate::entry::*;
    use std::collections::BTreeMap;
    use std::sync::Arc;
    let log: Log = Default::default();
    let behaviours: Vec<(String, &str, V)> = vec![("f".into(), "id", Value::Empty), ("g".into(), "const", Value::Int(7)), ("h".into(), "fail", Value::Empty)];
    let vars: Vec<(String, V)> = vec![
        ("x".into(), Value::Int(rng.gen_range(0..5))),
        ("y".into(), Value::String("ab".into())),
        ("zed".into(), Value::Tuple(vec![Value::Int(1), Value::Int(2)])),
        ("s1".into(), Value::String("Alpha".into())),
        ("s2".into(), Value::String("bRAVO".into())),
        ("s3".into(), Value::String(" Charlie ".into())),
    ];
    // operands of the float primitives the fixed sources below need
    rec.ints.extend(0..8);
    rec.floats.extend([1.5, 2.5, 1.0, 3.0]);
    rec.words.extend(["1.5", "2.5", "1e-3", "2.5e+2", "1E+2", "1e", "2.5e", "1E"].iter().map(|s| s.to_string()));
    rec.floats.extend([1e-3, 2.5e+2, 1e2]);
    let mut c = HashMapContext::<DefaultNumericTypes>::new();
    for (n, b, v) in &behaviours {
        c.set_function(n.clone(), make_function(n, b, Some(v.clone()), &log)).unwrap();
    }
    for (n, v) in &vars {
        c.set_value(n.clone(), v.clone()).unwrap();
    }
    rec.emit(json!({"ev": "ctx", "slot": 0, "ctx": ctx_json(&vars, &behaviours, false)}));
    let mut sources: Vec<String> = ["x + 1", "f(x) * 2", "g()", "y + \"c\"", "len(y)", "max(x, 3)", "zed", "x = 2", "undefined", "1 / 0",
                                    "if(x > 0, \"p\", \"n\")", "(x, y); x", "str::from(zed)", "contains(zed, 2)", "x < 2 && true", "h(1)",
                                    "typeof(zed), typeof(y)", "x += 1; x", "min(x, 2, 3) - 1",
                                    // every family of builtins, the same function on different arguments from different threads:
                                    // process-wide state behind a builtin (a memo, a scratch buffer) shows up as a wrong result
                                    "str::to_uppercase(s1)", "str::to_uppercase(s2)", "str::to_uppercase(s3)", "str::to_lowercase(s1)",
                                    "str::to_lowercase(s2)", "str::to_lowercase(s3) + str::to_uppercase(s1)", "str::trim(s3)",
                                    "str::trim(s3 + s1)", "str::substring(s1, 1, 3)", "str::substring(s2, 2)", "str::from(x) + s2",
                                    "str::from(zed) + s1", "math::sqrt(x + 1)", "math::sqrt(x + 2)", "floor(1.5) + round(2.5)",
                                    "bitand(x, 6), bitor(x, 1), shl(x, 2)", "contains_any(zed, (2, 5))", "contains(zed, x)",
                                    "typeof(s1), len(s2), len(zed)", "math::abs(-x)", "max(x, 1.5), min(2.5, x)",
                                    "str::from(s1)", "str::from((s2, 1))", "str::from(y), str::from((y, zed))", "str::from(true), str::from(())",
                                    "(s1, x) == (s1, x)", "s1 < s2, s2 < s1", "typeof(x), typeof(1.5), typeof(true), typeof(())",
                                    // float primitives on different operands from different threads (a memo behind `^` / math::)
                                    "x ^ 2", "2 ^ x", "1.5 ^ x", "math::pow(x, 3)", "math::pow(2.5, x)", "x * 1.5, x / 2.5, x % 3",
                                    "math::ln(x + 1), math::exp(x)", "math::sin(x), math::cos(x + 1)", "math::atan2(x, 2), math::hypot(x, 3)",
                                    // literals whose tokenisation joins three pieces, strings with escapes, comments: the string-level
                                    // entry points tokenise concurrently
                                    "1e-3 + x", "2.5e+2 * x", "x + 1E+2", "\"a\\\"b\" + s1", "x /* c */ + 0x1f", "len(\"\\\\\") + x // t"]
        .iter()
        .map(|s| s.to_string())
        .collect();
    for _ in 0..12 {
        let depth = rng.gen_range(1..4);
        let ast = gen_ast(rng, depth, true);
        let mut toks = Vec::new();
        render_inline(&ast, rng, &mut toks);
        sources.push(toks.join(" "));
    }
    // DEEP and LONG evaluations: many threads are inside the evaluator at the same time for a long stretch, each several
    // hundred frames down.  Process-wide state that is only wrong while evaluations overlap (a shared depth or step
    // counter, a shared scratch stack) needs exactly this to show.
    let first_deep = sources.len();
    for d in [100usize, 200] {
        sources.push(format!("{}x + 1{}", "(".repeat(d), ")".repeat(d)));
        sources.push(format!("{}x", "-".repeat(d)));
        sources.push(format!("{}x{}", "f(".repeat(d / 2), ")".repeat(d / 2)));
    }
    sources.push((0..100).map(|i| format!("(x + {})", i % 9)).collect::<Vec<_>>().join(" + "));
    let trees: Vec<Option<Tree>> = sources.iter().map(|s| build_operator_tree::<DefaultNumericTypes>(s).ok()).collect();
    let shared = Arc::new((c, sources.clone(), trees));
    let seeds: Vec<u64> = (0..nthreads).map(|_| rng.gen()).collect();
    let mut handles = Vec::new();
    for (t, sd) in seeds.into_iter().enumerate() {
        let shared = shared.clone();
        handles.push(std::thread::Builder::new().stack_size(64 << 20).spawn(move || {
            use rand::SeedableRng;
            let mut rng = StdRng::seed_from_u64(sd);
            let (ctx, sources, trees) = &*shared;
            let mut seen: BTreeMap<(usize, &'static str, bool, String), (J, u64)> = BTreeMap::new();
            for _ in 0..iters {
                let i = rng.gen_range(0..sources.len());
                // the deep programs through two projections only: each distinct (program, entry point, result) is one event, and
                // the specification needs seconds to parse a text of a thousand tokens
                let kind = if i >= first_deep { [Kind::Value, Kind::Int][rng.gen_range(0..2)] } else { KINDS[rng.gen_range(0..KINDS.len())] };
                let tree_level = rng.gen_bool(0.5) && trees[i].is_some();
                let r = guard(|| {
                    if tree_level {
                        call_tree_imm(kind, trees[i].as_ref().unwrap(), ctx)
                    } else {
                        call_string_imm(kind, &sources[i], ctx)
                    }
                });
                let rj = res_json(&r);
                let e = seen.entry((i, kind.name(), tree_level, rj.to_string())).or_insert((rj, 0));
                e.1 += 1;
            }
            (t, seen)
        }).expect("spawn"));
    }
    let mut merged: BTreeMap<(usize, &'static str, bool, String), (J, u64)> = BTreeMap::new();
    for h in handles {
        match h.join() {
            Ok((_, seen)) => {
                for (k, (rj, n)) in seen {
                    let e = merged.entry(k).or_insert((rj, 0));
                    e.1 += n;
                }
            },
            Err(_) => rec.emit(json!({"ev": "eval", "slot": 0, "src": cps("<thread>"), "level": "string", "ek": "value", "mode": "imm",
                                      "res": {"p": "panic", "v": enc_value(&Value::Empty), "e": no_err()}, "post": {"nb": false, "vars": [], "funcs": []},
                                      "log": [], "nolog": true})),
        }
    }
    let (ctx, sources, _) = &*shared;
    let probe: Vec<String> = vec!["f".into(), "g".into(), "h".into(), "never_defined".into()];
    let post = project_hashmap(ctx, &probe, &log).unwrap_or_else(|e| json!({"error": e}));
    for ((i, kind, tree_level, _), (rj, count)) in merged {
        rec.emit(json!({"ev": "eval", "slot": 0, "src": cps(&sources[i]), "level": if tree_level { "tree" } else { "string" }, "ek": kind,
                        "mode": "imm", "res": rj, "post": post, "log": [], "nolog": true, "count": count, "threads": nthreads}));
    }
}

// ------------------------------------------------------------------------------------------------
// generator "deep": 4096-character inputs of maximal nesting (C01); each runs on a thread with the
// 8 MiB stack of a default main thread.  A stack overflow aborts the process: the family in progress
// is announced on stderr first, so that the driver can attribute the abort.
// ------------------------------------------------------------------------------------------------
pub fn gen_deep(rec: &mut Recorder, rng: &mut StdRng, _n: usize) {
    let len = 4096usize;
    let rep = |unit: &str, tail: &str| -> String {
        let mut s = String::new();
        while s.chars().count() + unit.chars().count() + tail.chars().count() <= len {
            s.push_str(unit);
        }
        s.push_str(tail);
        s
    };
    let mut families: Vec<(&str, String)> = vec![
        ("open_parens", rep("(", "")),
        ("nested_parens", format!("{}1{}", "(".repeat(2047), ")".repeat(2047))),
        ("prefix_minus", rep("-", "1")),
        ("prefix_not", rep("!", "true")),
        ("application_chain", rep("f ", "1")),
        ("assign_chain", rep("a=", "1")),
        ("left_deep_sum", rep("1+", "1")),
        ("right_deep_pow", rep("2^", "2")),
        ("nested_tuples", rep("(1,", "")),
        ("chain", rep("1;", "")),
        ("long_string", format!("\"{}\"", "ä".repeat(4000))),
        ("long_identifier", "x".repeat(4096)),
        ("long_comment", format!("/*{}*/1", "*".repeat(4000))),
        ("unterminated_string", format!("\"{}", "a".repeat(4000))),
        ("many_commas", rep(",", "")),
        ("mixed", rep("(-f x,", "")),
    ];
    for _ in 0..6 {
        families.push(("fuzz4096", fuzz_string(rng, len)));
    }
    for (name, src) in families {
        eprintln!("DEEP {name}");
        let src2 = src.clone();
        let h = std::thread::Builder::new()
            .stack_size(8 << 20)
            .spawn(move || {
                guard(|| {
                    let t = build_operator_tree::<DefaultNumericTypes>(&src2);
                    let shown = match &t {
                        Ok(t) => format!("{t}").len() + format!("{t:?}").len(),
                        Err(e) => format!("{e} {e:?}").len(),
                    };
                    let mut c = crate::replay::populated();
                    let r1 = eval_with_context_mut(&src2, &mut c).map(|v| format!("{v} {v:?}").len());
                    let r2 = t.as_ref().ok().map(|t| t.eval_with_context(&crate::replay::populated()).map(|v| v.to_string().len()));
                    let ids = t.as_ref().ok().map(|t| t.iter_identifiers().count());
                    (t.is_ok(), shown, r1.is_ok(), r2.map(|r| r.is_ok()), ids)
                })
            })
            .expect("spawn");
        let outcome = match h.join() {
            Ok(Ok((built, ..))) => json!({"p": if built { "val" } else { "err" }, "v": enc_value(&Value::Empty), "e": no_err()}),
            Ok(Err(p)) => json!({"p": "panic", "v": enc_value(&Value::Empty), "e": no_err(), "panic": p}),
            Err(_) => json!({"p": "panic", "v": enc_value(&Value::Empty), "e": no_err(), "panic": "thread died"}),
        };
        rec.emit(json!({"ev": "deep", "family": name, "len": src.chars().count(), "res": outcome}));
    }
}

// ------------------------------------------------------------------------------------------------
// generator "builtins": random calls of the 49 builtin functions (C10)
// ------------------------------------------------------------------------------------------------
const BUILTINS: [&str; 49] = [
    "math::ln", "math::log", "math::log2", "math::log10", "math::exp", "math::exp2", "math::pow", "math::cos", "math::acos",
    "math::cosh", "math::acosh", "math::sin", "math::asin", "math::sinh", "math::asinh", "math::tan", "math::atan", "math::tanh",
    "math::atanh", "math::atan2", "math::sqrt", "math::cbrt", "math::hypot", "floor", "round", "ceil", "math::is_nan",
    "math::is_finite", "math::is_infinite", "math::is_normal", "math::abs", "typeof", "min", "max", "if", "contains",
    "contains_any", "len", "str::to_lowercase", "str::to_uppercase", "str::trim", "str::from", "str::substring", "bitand",
    "bitor", "bitxor", "bitnot", "shl", "shr",
];

pub fn gen_builtins(rec: &mut Recorder, rng: &mut StdRng, n: usize) {
    let fpool: Vec<f64> = (0..30).map(|_| rand_float(rng)).collect();
    let ipool: Vec<i64> = (0..20).map(|_| rand_int(rng)).collect();
    rec.floats.extend(fpool.iter());
    rec.ints.extend(ipool.iter());
    let spool: Vec<String> = (0..25).map(|_| rand_string(rng)).chain(["ÄÖü ß".to_string(), " \u{3000}x\t".to_string()]).collect();
    rec.strings.extend(spool.iter().cloned());
    let num = |rng: &mut StdRng| -> V {
        if rng.gen_bool(0.5) { Value::Float(*fpool.choose(rng).unwrap()) } else { Value::Int(*ipool.choose(rng).unwrap()) }
    };
    let any = |rng: &mut StdRng, depth: u32| -> V {
        fn go(rng: &mut StdRng, depth: u32, fpool: &[f64], ipool: &[i64], spool: &[String]) -> V {
            match rng.gen_range(0..8) {
                0..=1 => Value::Int(*ipool.choose(rng).unwrap()),
                2 => Value::Float(*fpool.choose(rng).unwrap()),
                3 => Value::String(spool.choose(rng).unwrap().clone()),
                4 => Value::Boolean(rng.gen_bool(0.5)),
                5 => Value::Empty,
                _ if depth > 0 => Value::Tuple((0..rng.gen_range(0..4)).map(|_| go(rng, depth - 1, fpool, ipool, spool)).collect()),
                _ => Value::Int(rng.gen_range(0..9)),
            }
        }
        go(rng, depth, &fpool, &ipool, &spool)
    };
    let scalar = |rng: &mut StdRng| -> V {
        match rng.gen_range(0..4) {
            0 => Value::Int(rng.gen_range(0..5)),
            1 => Value::String(spool.choose(rng).unwrap().clone()),
            2 => Value::Boolean(rng.gen_bool(0.5)),
            _ => Value::Float(*fpool.choose(rng).unwrap()),
        }
    };
    for _ in 0..n {
        let name = *BUILTINS.choose(rng).unwrap();
        // mostly arguments of the documented shape, sometimes anything
        let args: Vec<V> = if rng.gen_range(0..6) == 0 {
            (0..rng.gen_range(0..4)).map(|_| any(rng, 2)).collect()
        } else {
            match name {
                "math::log" | "math::pow" | "math::atan2" | "math::hypot" => vec![num(rng), num(rng)],
                "min" | "max" => {
                    // not claimed: NaN among the arguments; the sign of a zero result when zeros of both signs compete
                    let mut v: Vec<V> = (0..rng.gen_range(1..5)).map(|_| num(rng)).collect();
                    v.retain(|x| !matches!(x, Value::Float(f) if f64::is_nan(*f) || *f == 0.0));
                    if v.is_empty() {
                        v.push(Value::Int(1));
                    }
                    v
                },
                "if" => vec![Value::Boolean(rng.gen_bool(0.5)), any(rng, 1), any(rng, 1)],
                "contains" => vec![Value::Tuple((0..rng.gen_range(0..4)).map(|_| scalar(rng)).collect()), scalar(rng)],
                "contains_any" => vec![
                    Value::Tuple((0..rng.gen_range(0..4)).map(|_| scalar(rng)).collect()),
                    Value::Tuple((0..rng.gen_range(0..3)).map(|_| scalar(rng)).collect()),
                ],
                "len" => vec![if rng.gen_bool(0.5) { Value::String(spool.choose(rng).unwrap().clone()) } else { any(rng, 1) }],
                "str::to_lowercase" | "str::to_uppercase" | "str::trim" => vec![Value::String(spool.choose(rng).unwrap().clone())],
                "str::substring" => {
                    let mut v = vec![Value::String(spool.choose(rng).unwrap().clone()), Value::Int(rng.gen_range(-1..9))];
                    if rng.gen_bool(0.6) {
                        v.push(Value::Int(rng.gen_range(-1..12)));
                    }
                    v
                },
                "bitand" | "bitor" | "bitxor" => vec![Value::Int(rand_int(rng)), Value::Int(rand_int(rng))],
                "bitnot" => vec![Value::Int(rand_int(rng))],
                "shl" | "shr" => vec![Value::Int(rand_int(rng)), Value::Int(rng.gen_range(0..64))],     // other amounts: not claimed
                "typeof" | "str::from" => vec![any(rng, 2)],
                "math::abs" => vec![if rng.gen_bool(0.5) { Value::Int(rand_int(rng)) } else { num(rng) }],
                _ => vec![num(rng)],
            }
        };
        // undocumented corners are avoided in every case
        let open = match name {
            "min" | "max" => args.iter().any(|x| matches!(x, Value::Float(f) if f64::is_nan(*f) || *f == 0.0) || matches!(x, Value::Tuple(_))),
            "shl" | "shr" => !matches!(args.get(1), Some(Value::Int(k)) if (0..64).contains(k)) && args.len() == 2,
            "contains" | "contains_any" => args.iter().any(|x| match x {
                Value::Empty => true,
                Value::Tuple(k) => k.iter().any(|e| matches!(e, Value::Empty)),
                _ => false,
            }),
            _ => false,
        };
        if open {
            continue;
        }
        let names = ["a", "b", "c", "d"];
        let vars: Vec<(String, V)> = args.iter().enumerate().map(|(i, v)| (names[i].to_string(), v.clone())).collect();
        // a single tuple-valued argument would be spread by the call: pass it through a variable as the whole argument
        let src = format!("{name}({})", names[..args.len()].join(", "));
        rec.emit(json!({"ev": "ctx", "slot": 0, "ctx": ctx_json(&vars, &[], false)}));
        let mut c = HashMapContext::<DefaultNumericTypes>::new();
        for (n, v) in &vars {
            c.set_value(n.clone(), v.clone()).unwrap();
        }
        let r = guard(|| eval_with_context(&src, &c));
        let post = json!({"nb": false, "vars": vars.iter().map(|(n, v)| json!({"n": cps(n), "v": enc_value(v)})).collect::<Vec<_>>(), "funcs": []});
        rec.emit(json!({"ev": "eval", "slot": 0, "src": cps(&src), "level": "string", "ek": "value", "mode": "imm",
                        "res": res_json(&r), "post": post, "log": []}));
    }
}

// ------------------------------------------------------------------------------------------------
// generator "literals": random integer, float and string literals in every standard rendering, alone and
// glued between other tokens (C06)
// ------------------------------------------------------------------------------------------------
pub fn gen_literals(rec: &mut Recorder, rng: &mut StdRng, n: usize) {
    let c = HashMapContext::<DefaultNumericTypes>::new();
    rec.emit(json!({"ev": "ctx", "slot": 0, "ctx": ctx_json(&[], &[], false)}));
    for k in 0..n {
        let lit: String = match k % 3 {
            0 => {
                // an integer in [0, 2^63): decimal or hexadecimal, sometimes with leading zeros
                let v: i64 = match rng.gen_range(0..4) {
                    0 => rng.gen::<i64>() & i64::MAX,
                    1 => (rng.gen::<i64>() & i64::MAX) >> rng.gen_range(0..63),
                    2 => i64::MAX - rng.gen_range(0..3),
                    _ => rng.gen_range(0..1000),
                };
                match rng.gen_range(0..5) {
                    0 => format!("0x{:x}", v),
                    1 => format!("0x{:X}", v),
                    2 => format!("0x00{:x}", v),
                    3 => format!("00{}", v),
                    _ => v.to_string(),
                }
            },
            1 => {
                // a finite non-negative double in one of the standard renderings
                let x: f64 = loop {
                    let y = match rng.gen_range(0..4) {
                        0 => f64::from_bits(rng.gen::<u64>() & !(1u64 << 63)),
                        1 => (rng.gen_range(0..100000) as f64) / 64.0,
                        2 => (rng.gen::<u32>() as f64) * 10f64.powi(rng.gen_range(-30..30)),
                        _ => rng.gen_range(0..50) as f64,
                    };
                    if y.is_finite() {
                        break y;
                    }
                };
                let sci = format!("{:e}", x); // e.g. 1.5e-7, 3e0
                let r = match rng.gen_range(0..9) {
                    0 => format!("{:?}", x),                                   // shortest round trip, always with . or e
                    1 => sci.clone(),
                    2 => sci.replace("e-", "E-").replace('e', "E"),
                    3 => if sci.contains("e-") { sci.clone() } else { sci.replace('e', "e+") },
                    4 => if sci.contains("e-") { sci.replace('e', "E") } else { sci.replace('e', "E+") },
                    5 => {
                        let f = format!("{:?}", x);
                        if let Some(rest) = f.strip_prefix("0.") { format!(".{rest}") } else { f }         // leading dot
                    },
                    6 => {
                        let f = format!("{:?}", x);
                        if let Some(head) = f.strip_suffix(".0") { format!("{head}.") } else { f }           // trailing dot
                    },
                    7 => format!("{:.3}", x.min(1e15)),                                                      // fixed
                    _ => format!("{}", x),                                       // Display: integral values look like integers
                };
                r
            },
            _ => quote(&rand_string(rng)),
        };
        // float-looking words for the specification's lexer
        for part in candidate_words(&lit) {
            if part.chars().any(|c| c.is_ascii_digit()) && part.chars().all(|c| c.is_ascii_digit() || ".eE+-".contains(c)) {
                rec.words.push(part);
            }
        }
        let src = match rng.gen_range(0..6) {
            0 | 1 => lit.clone(),
            2 => format!("{lit}-{lit}"),
            3 => format!("a-{lit}"),
            4 => format!("({lit},{lit})"),
            _ => format!("x={lit};x"),
        };
        for w in src.split(|c: char| "=;(),".contains(c)) {
            for part in candidate_words(w) {
                if part.chars().any(|c| c.is_ascii_digit()) && part.chars().all(|c| c.is_ascii_digit() || ".eE+-".contains(c)) {
                    rec.words.push(part);
                }
            }
        }
        let tree = guard(|| build_operator_tree::<DefaultNumericTypes>(&src));
        let mut ev = json!({"ev": "build", "src": cps(&src), "deficient": false});
        match &tree {
            Ok(Ok(t)) => {
                ev["res"] = json!({"p": "val", "v": enc_value(&Value::Empty), "e": no_err()});
                ev["tree"] = enc_tree(&normalise(t));
            },
            Ok(Err(e)) => ev["res"] = json!({"p": "err", "v": enc_value(&Value::Empty), "e": enc_error(e)}),
            Err(p) => ev["res"] = json!({"p": "panic", "v": enc_value(&Value::Empty), "e": no_err(), "panic": p}),
        }
        rec.emit(ev);
        // and evaluated where no arithmetic on floats is involved
        if !src.contains('-') || lit.starts_with('"') {
            let r = guard(|| eval_with_context(&src, &c));
            if !src.starts_with("x=") {
                rec.emit(json!({"ev": "eval", "slot": 0, "src": cps(&src), "level": "string", "ek": "value", "mode": "imm",
                                "res": res_json(&r), "post": {"nb": false, "vars": [], "funcs": []}, "log": []}));
            }
        }
    }
}

// ------------------------------------------------------------------------------------------------
// generator "macros": the context_map! and math_consts_context! macros (fixed invocations; the macro arguments are
// compile-time, so the entries are written out next to each invocation)
// ------------------------------------------------------------------------------------------------
// ------------------------------------------------------------------------------------------------
// generator "bigctx": one context with MANY variables and functions (capacity thresholds, rehashing), the switch, the clears
// ------------------------------------------------------------------------------------------------
pub fn gen_bigctx(rec: &mut Recorder, rng: &mut StdRng, _n: usize) {
    let log: Log = Default::default();
    let size = 70 + rng.gen_range(0..40);
    let vnames: Vec<String> = (0..size).map(|i| format!("b{i}")).collect();
    let fnames: Vec<String> = (0..size).map(|i| format!("p{i}")).chain(["max".to_string(), "len".to_string()]).collect();
    let probe: Vec<String> = fnames.iter().cloned().chain(std::iter::once("never_defined".to_string())).collect();
    let project = |c: &HashMapContext<DefaultNumericTypes>, log: &Log| project_hashmap(c, &probe, log).unwrap_or_else(|e| json!({"error": e}));
    for round in 0..3 {
        let mut c = HashMapContext::<DefaultNumericTypes>::new();
        rec.emit(json!({"ev": "ctx", "slot": 0, "ctx": ctx_json(&[], &[], false)}));
        for (i, name) in vnames.iter().enumerate() {
            let v = match i % 4 {
                0 => Value::Int(i as i64),
                1 => Value::String(format!("s{i}")),
                2 => Value::Boolean(i % 8 == 2),
                _ => Value::Tuple(vec![Value::Int(i as i64), Value::Empty]),
            };
            let r = guard(|| c.set_value(name.clone(), v.clone()).map(|_| Value::Empty));
            rec.emit(json!({"ev": "set_value", "slot": 0, "n": cps(name), "v": enc_value(&v), "res": res_json(&r), "post": project(&c, &log)}));
        }
        for (i, f) in fnames.iter().enumerate() {
            let (b, v) = if i % 2 == 0 { ("id", Value::Empty) } else { ("const", Value::Int(i as i64)) };
            c.set_function(f.clone(), make_function(f, b, Some(v.clone()), &log)).unwrap();
            rec.emit(json!({"ev": "set_function", "slot": 0, "n": cps(f), "b": b, "v": enc_value(&v), "post": project(&c, &log)}));
        }
        let mut eval = |rec: &mut Recorder, c: &mut HashMapContext<DefaultNumericTypes>, src: &str| {
            log.lock().unwrap().clear();
            let r = guard(|| eval_with_context_mut(src, c));
            let calls: Vec<(String, V)> = log.lock().unwrap().clone();
            rec.emit(json!({"ev": "eval", "slot": 0, "src": cps(src), "level": "string", "ek": "value", "mode": "mut",
                            "res": res_json(&r), "post": project(c, &log), "log": log_json(&calls)}));
        };
        let d = round != 1;
        let r = guard(|| c.set_builtin_functions_disabled(d).map(|_| Value::Empty));
        rec.emit(json!({"ev": "set_builtins", "slot": 0, "d": d, "res": res_json(&r), "post": project(&c, &log)}));
        eval(rec, &mut c, "max(1, 3), len(\"ab\"), min(4, 2)");
        eval(rec, &mut c, &format!("{} + {}", vnames[0], vnames[size - 4]));
        match round {
            0 => {
                c.clear();
                rec.emit(json!({"ev": "clear", "slot": 0, "post": project(&c, &log)}));
            },
            1 => {
                c.clear_functions();
                rec.emit(json!({"ev": "clear_functions", "slot": 0, "post": project(&c, &log)}));
                c.clear_variables();
                rec.emit(json!({"ev": "clear_variables", "slot": 0, "post": project(&c, &log)}));
            },
            _ => {
                c.clear_variables();
                rec.emit(json!({"ev": "clear_variables", "slot": 0, "post": project(&c, &log)}));
                let c2 = c.clone();
                rec.emit(json!({"ev": "clone", "slot": 0, "to": 1, "post": project(&c2, &log)}));
                c.clear_functions();
                rec.emit(json!({"ev": "clear_functions", "slot": 0, "post": project(&c, &log)}));
            },
        }
        // what the switch is now, whether the builtins and the user functions resolve, whether a variable is gone
        eval(rec, &mut c, "max(1, 3), len(\"ab\")");
        eval(rec, &mut c, "min(4, 2)");
        eval(rec, &mut c, &vnames[1].clone());
        eval(rec, &mut c, "p3(5)");
    }
}

pub fn gen_macros(rec: &mut Recorder, _rng: &mut StdRng, _n: usize) {
    let log: Log = Default::default();
    let probe: Vec<String> = vec!["f".into(), "g".into(), "x".into(), "never_defined".into()];
    let entry = |k: &str, f: bool, v: V| json!({"k": cps(k), "f": f, "v": enc_value(&v)});
    let emit = |rec: &mut Recorder, entries: Vec<J>, r: Result<(), E>, c: &HashMapContext<DefaultNumericTypes>| {
        let post = project_hashmap(c, &probe, &log).unwrap_or_else(|e| json!({"error": e}));
        let rr: Result<Result<V, E>, String> = Ok(r.map(|_| Value::Empty));
        rec.emit(json!({"ev": "context_map", "slot": 0, "entries": entries, "res": res_json(&rr), "post": post}));
        // afterwards the context is used like any other
        let r2 = guard(|| eval_with_context("x", c));
        rec.emit(json!({"ev": "eval", "slot": 0, "src": cps("x"), "level": "string", "ek": "value", "mode": "imm",
                        "res": res_json(&r2), "post": post, "log": []}));
    };
    // the creating form returns the context only on success: on an error the event says the context is lost
    let created = |rec: &mut Recorder, entries: Vec<J>, r: Result<HashMapContext<DefaultNumericTypes>, E>| match r {
        Ok(c) => emit(rec, entries, Ok(()), &c),
        Err(e) => {
            let rr: Result<Result<V, E>, String> = Ok(Err(e));
            rec.emit(json!({"ev": "context_map", "slot": 0, "entries": entries, "res": res_json(&rr), "lost": true,
                            "post": {"nb": false, "vars": [], "funcs": []}}));
        },
    };
    // 1. values of every kind and a function, trailing comma
    let r: Result<HashMapContext<DefaultNumericTypes>, E> = context_map! {
        "x" => int 8,
        "y" => float 1.5,
        "s" => Value::from("ab"),
        "b" => Value::from(true),
        "t" => Value::from(vec![Value::from_int(1), Value::from("z")]),
        "e" => Value::Empty,
        "f" => Function::new(|_| Ok(Value::from_int(42))),
    };
    created(rec, vec![entry("x", false, Value::Int(8)), entry("y", false, Value::Float(1.5)), entry("s", false, Value::String("ab".into())),
                      entry("b", false, Value::Boolean(true)), entry("t", false, Value::Tuple(vec![Value::Int(1), Value::String("z".into())])),
                      entry("e", false, Value::Empty), entry("f", true, Value::Int(42))], r);
    // 2. no trailing comma, a function sharing the name of a variable, a repeated key of the same type
    let r: Result<HashMapContext<DefaultNumericTypes>, E> = context_map! {
        "x" => int 1,
        "x" => Function::new(|_| Ok(Value::from_int(42))),
        "x" => int 2
    };
    created(rec, vec![entry("x", false, Value::Int(1)), entry("x", true, Value::Int(42)), entry("x", false, Value::Int(2))], r);
    // 2b. each kind of entry in the last position WITHOUT a trailing comma (the four termination rules of the macro)
    let r: Result<HashMapContext<DefaultNumericTypes>, E> = context_map! { "x" => int 1, "n" => int 2 };
    created(rec, vec![entry("x", false, Value::Int(1)), entry("n", false, Value::Int(2))], r);
    let r: Result<HashMapContext<DefaultNumericTypes>, E> = context_map! { "x" => float 1.5, "n" => float 2.5 };
    created(rec, vec![entry("x", false, Value::Float(1.5)), entry("n", false, Value::Float(2.5))], r);
    let r: Result<HashMapContext<DefaultNumericTypes>, E> = context_map! { "x" => int 1, "g" => Function::new(|_| Ok(Value::from_int(42))) };
    created(rec, vec![entry("x", false, Value::Int(1)), entry("g", true, Value::Int(42))], r);
    let r: Result<HashMapContext<DefaultNumericTypes>, E> = context_map! { "x" => Value::from("s"), "n" => Value::from(false) };
    created(rec, vec![entry("x", false, Value::String("s".into())), entry("n", false, Value::Boolean(false))], r);
    // 2c. a single entry of each kind, with and without the comma
    let r: Result<HashMapContext<DefaultNumericTypes>, E> = context_map! { "x" => int 7 };
    created(rec, vec![entry("x", false, Value::Int(7))], r);
    let r: Result<HashMapContext<DefaultNumericTypes>, E> = context_map! { "x" => float 2.5, };
    created(rec, vec![entry("x", false, Value::Float(2.5))], r);
    // 2d. the creating form with a type conflict: the first error is returned and the context is dropped
    let r: Result<HashMapContext<DefaultNumericTypes>, E> = context_map! { "x" => int 1, "x" => float 2.5, "n" => int 2 };
    created(rec, vec![entry("x", false, Value::Int(1)), entry("x", false, Value::Float(2.5)), entry("n", false, Value::Int(2))], r);
    // 3. a type conflict in the middle: later entries are still applied, the first error is returned
    let mut c = HashMapContext::<DefaultNumericTypes>::new();
    let r: Result<(), E> = context_map!((&mut c) "x" => int 1, "x" => Value::from("s"), "y" => int 2, "x" => float 2.5, "g" => Function::new(|_| Ok(Value::from_int(42))));
    emit(rec, vec![entry("x", false, Value::Int(1)), entry("x", false, Value::String("s".into())), entry("y", false, Value::Int(2)),
                   entry("x", false, Value::Float(2.5)), entry("g", true, Value::Int(42))], r, &c);
    // 4. the empty map
    let r: Result<HashMapContext<DefaultNumericTypes>, E> = context_map! {};
    created(rec, vec![], r);
    // 5. math_consts_context!: all constants of core::f64::consts, and a selection
    use core::f64::consts as k;
    let all = [("PI", k::PI), ("TAU", k::TAU), ("FRAC_PI_2", k::FRAC_PI_2), ("FRAC_PI_3", k::FRAC_PI_3), ("FRAC_PI_4", k::FRAC_PI_4),
               ("FRAC_PI_6", k::FRAC_PI_6), ("FRAC_PI_8", k::FRAC_PI_8), ("FRAC_1_PI", k::FRAC_1_PI), ("FRAC_2_PI", k::FRAC_2_PI),
               ("FRAC_2_SQRT_PI", k::FRAC_2_SQRT_PI), ("SQRT_2", k::SQRT_2), ("FRAC_1_SQRT_2", k::FRAC_1_SQRT_2), ("E", k::E),
               ("LOG2_10", k::LOG2_10), ("LOG2_E", k::LOG2_E), ("LOG10_2", k::LOG10_2), ("LOG10_E", k::LOG10_E), ("LN_2", k::LN_2), ("LN_10", k::LN_10)];
    let r: Result<HashMapContext<DefaultNumericTypes>, E> = math_consts_context!();
    created(rec, all.iter().map(|(n, v)| entry(n, false, Value::Float(*v))).collect(), r);
    let r: Result<HashMapContext<DefaultNumericTypes>, E> = math_consts_context!(E, PI);
    created(rec, vec![entry("E", false, Value::Float(k::E)), entry("PI", false, Value::Float(k::PI))], r);
}

// ------------------------------------------------------------------------------------------------
// generator "floatprogs": NESTED float / mixed int-float arithmetic inside programs (C03 C04 C08)
//
// The other program generators keep to integers, because the specification can only evaluate a float operation whose
// operands are in the environment-primitive table, and the operands of an inner operation are results of outer ones.
// Here a SHADOW evaluator (plain f64 / checked i64 arithmetic on the generator's own AST, no evalexpr involved) walks the
// program first and lists every operand pair and every float it meets; primgen tabulates the primitives on exactly those.
// The shadow only decides WHICH FACTS ARE TABULATED, never an expected result: the specification evaluates the program
// itself from the table.  A fact that is missing (the shadow took another path than the specification) is a tool error
// (exit 2), a superfluous one is harmless.
// ------------------------------------------------------------------------------------------------
#[derive(Clone, Debug)]
enum FAst {
    Lit(&'static str),
    Read(&'static str),
    Neg(Box<FAst>),
    Bin(&'static str, Box<FAst>, Box<FAst>),
    Call1(&'static str, Box<FAst>),
    CallN(&'static str, Vec<FAst>),
    If(Box<FAst>, Box<FAst>, Box<FAst>),
    Assign(&'static str, &'static str, Box<FAst>),
    Chain(Vec<FAst>),
}
#[derive(Clone, Copy, Debug)]
enum Sv {
    I(i64),
    F(f64),
    B(bool),
    U,
}
const FVARS: [&str; 4] = ["a", "b", "c", "d"];
const IVARS: [&str; 2] = ["i", "j"];
const FLITS: [&str; 12] = ["0.5", "1.5", "2.0", "1e3", "2.5e-3", ".25", "3", "2", "0", "10", "7", "0.1"];
const FARITH: [&str; 6] = ["+", "-", "*", "/", "%", "^"];
const FCMP: [&str; 6] = ["<", ">", "<=", ">=", "==", "!="];
const FCALL1: [&str; 8] = ["floor", "ceil", "round", "math::sqrt", "math::abs", "math::exp", "math::ln", "math::cbrt"];
const FASSIGN: [&str; 7] = ["=", "+=", "-=", "*=", "/=", "%=", "^="];

fn gen_fnum(rng: &mut StdRng, depth: u32) -> FAst {
    if depth == 0 || rng.gen_range(0..10) < 2 {
        return match rng.gen_range(0..10) {
            0..=4 => FAst::Read(FVARS.choose(rng).unwrap()),
            5..=6 => FAst::Read(IVARS.choose(rng).unwrap()),
            _ => FAst::Lit(FLITS.choose(rng).unwrap()),
        };
    }
    match rng.gen_range(0..14) {
        12..=13 => {
            // a left-deep run of one precedence level ending in literals, the way sums are written by hand: `a + 1 + 2`,
            // `b * 2 / 3 * 0.5`.  Re-associating it (constant folding of the trailing literals) is exact on integers and
            // changes the rounding on floats.
            let ops: &[&'static str] = if rng.gen_bool(0.6) { &["+", "-"] } else { &["*", "/", "%"] };
            let mut acc = gen_fnum(rng, depth - 1);
            for k in 0..rng.gen_range(2..5) {
                let term = if k > 0 || rng.gen_bool(0.7) { FAst::Lit(FLITS.choose(rng).unwrap()) } else { gen_fnum(rng, 0) };
                acc = FAst::Bin(ops.choose(rng).unwrap(), Box::new(acc), Box::new(term));
            }
            acc
        },
        0..=7 => FAst::Bin(FARITH.choose(rng).unwrap(), Box::new(gen_fnum(rng, depth - 1)), Box::new(gen_fnum(rng, depth - 1))),
        8 => FAst::Neg(Box::new(gen_fnum(rng, depth - 1))),
        9 => FAst::Call1(FCALL1.choose(rng).unwrap(), Box::new(gen_fnum(rng, depth - 1))),
        10 => {
            // min / max of two or three numbers (keeps the type of the winner), the two-argument math functions
            let name = *["min", "max", "min", "max", "math::pow", "math::hypot", "math::atan2"].choose(rng).unwrap();
            let n = if name.starts_with("math") { 2 } else { rng.gen_range(2..4) };
            FAst::CallN(name, (0..n).map(|_| gen_fnum(rng, depth - 1)).collect())
        },
        _ => FAst::If(Box::new(gen_fbool(rng, depth - 1)), Box::new(gen_fnum(rng, depth - 1)), Box::new(gen_fnum(rng, depth - 1))),
    }
}
fn gen_fbool(rng: &mut StdRng, depth: u32) -> FAst {
    if depth > 0 && rng.gen_range(0..5) == 0 {
        return FAst::Bin(if rng.gen_bool(0.5) { "&&" } else { "||" }, Box::new(gen_fbool(rng, depth - 1)), Box::new(gen_fbool(rng, depth - 1)));
    }
    FAst::Bin(FCMP.choose(rng).unwrap(), Box::new(gen_fnum(rng, depth)), Box::new(gen_fnum(rng, depth)))
}
fn gen_fstmt(rng: &mut StdRng, depth: u32) -> FAst {
    match rng.gen_range(0..10) {
        0..=4 => {
            let v = if rng.gen_range(0..6) == 0 { *IVARS.choose(rng).unwrap() } else { *FVARS.choose(rng).unwrap() };
            FAst::Assign(v, FASSIGN.choose(rng).unwrap(), Box::new(gen_fnum(rng, depth)))
        },
        5 => gen_fbool(rng, depth),
        _ => gen_fnum(rng, depth),
    }
}
fn fprec(a: &FAst) -> i32 {
    match a {
        FAst::Bin(op, ..) => prec(op),
        FAst::Assign(..) => 50,
        FAst::Neg(..) => 110,
        FAst::Chain(..) => 0,
        _ => 200,
    }
}
fn frender(a: &FAst, min: i32, rng: &mut StdRng, out: &mut String) {
    let need = fprec(a) < min || (rng.gen_range(0..10) == 0);
    if need {
        out.push('(');
    }
    match a {
        FAst::Lit(w) => out.push_str(w),
        FAst::Read(n) => out.push_str(n),
        FAst::Neg(x) => {
            out.push('-');
            frender(x, 110, rng, out);
        },
        FAst::Bin(op, l, r) => {
            let p = prec(op);
            frender(l, p, rng, out);
            out.push_str(&format!(" {op} "));
            frender(r, p + 1, rng, out);
        },
        FAst::Call1(n, x) => {
            out.push_str(n);
            out.push('(');
            frender(x, 50, rng, out);
            out.push(')');
        },
        FAst::CallN(n, xs) => {
            out.push_str(n);
            out.push('(');
            for (k, x) in xs.iter().enumerate() {
                if k > 0 {
                    out.push_str(", ");
                }
                frender(x, 50, rng, out);
            }
            out.push(')');
        },
        FAst::If(c, x, y) => {
            out.push_str("if(");
            frender(c, 50, rng, out);
            out.push_str(", ");
            frender(x, 50, rng, out);
            out.push_str(", ");
            frender(y, 50, rng, out);
            out.push(')');
        },
        FAst::Assign(n, op, rhs) => {
            out.push_str(&format!("{n} {op} "));
            frender(rhs, 51, rng, out);
        },
        FAst::Chain(es) => {
            for (k, e) in es.iter().enumerate() {
                if k > 0 {
                    out.push_str("; ");
                }
                frender(e, 50, rng, out);
            }
        },
    }
    if need {
        out.push(')');
    }
}

struct Shadow<'a> {
    env: std::collections::HashMap<&'static str, Sv>,
    floats: &'a mut Vec<f64>,
    pairs: &'a mut Vec<(f64, f64)>,
    mutable: bool,
    /// the program ran into something the documentation leaves open (NaN or a numeric tie between an Int and a Float in
    /// min / max): such programs are not recorded, because the context after them is not determined
    undoc: bool,
}
impl Shadow<'_> {
    fn num(&mut self, v: Sv) -> Option<f64> {
        match v {
            Sv::I(i) => {
                let f = i as f64;
                self.floats.push(f);
                Some(f)
            },
            Sv::F(f) => Some(f),
            _ => None,
        }
    }
    fn float(&mut self, f: f64) -> Option<Sv> {
        self.floats.push(f);
        Some(Sv::F(f))
    }
    fn arith(&mut self, op: &str, l: Sv, r: Sv) -> Option<Sv> {
        if let (Sv::I(x), Sv::I(y), true) = (l, r, op != "^") {
            return match op {
                "+" => x.checked_add(y),
                "-" => x.checked_sub(y),
                "*" => x.checked_mul(y),
                "/" => x.checked_div(y),
                _ => x.checked_rem(y),
            }
            .map(Sv::I);
        }
        let (x, y) = (self.num(l)?, self.num(r)?);
        self.pairs.push((x, y));
        self.float(match op {
            "+" => x + y,
            "-" => x - y,
            "*" => x * y,
            "/" => x / y,
            "%" => x % y,
            _ => x.powf(y),
        })
    }
    fn eval(&mut self, a: &FAst) -> Option<Sv> {
        match a {
            FAst::Lit(w) => match w.parse::<i64>() {
                Ok(i) => Some(Sv::I(i)),
                Err(_) => self.float(w.parse::<f64>().unwrap()),
            },
            FAst::Read(n) => self.env.get(n).copied(),
            FAst::Neg(x) => match self.eval(x)? {
                Sv::I(i) => i.checked_neg().map(Sv::I),
                Sv::F(f) => self.float(-f),
                _ => None,
            },
            FAst::Bin(op, l, r) => {
                let (l, r) = (self.eval(l)?, self.eval(r)?);
                match *op {
                    "&&" | "||" => match (l, r) {
                        (Sv::B(x), Sv::B(y)) => Some(Sv::B(if *op == "&&" { x && y } else { x || y })),
                        _ => None,
                    },
                    "==" | "!=" => {
                        // structural: an Int never equals a Float
                        let eq = match (l, r) {
                            (Sv::I(x), Sv::I(y)) => x == y,
                            (Sv::F(x), Sv::F(y)) => x == y,
                            (Sv::B(x), Sv::B(y)) => x == y,
                            (Sv::U, Sv::U) => true,
                            _ => false,
                        };
                        Some(Sv::B(eq == (*op == "==")))
                    },
                    "<" | ">" | "<=" | ">=" => {
                        let ord = |o: &str, c: std::cmp::Ordering| match o {
                            "<" => c.is_lt(),
                            ">" => c.is_gt(),
                            "<=" => c.is_le(),
                            _ => c.is_ge(),
                        };
                        if let (Sv::I(x), Sv::I(y)) = (l, r) {
                            return Some(Sv::B(ord(op, x.cmp(&y))));
                        }
                        let (x, y) = (self.num(l)?, self.num(r)?);
                        Some(Sv::B(match *op {
                            "<" => x < y,
                            ">" => x > y,
                            "<=" => x <= y,
                            _ => x >= y,
                        }))
                    },
                    _ => self.arith(op, l, r),
                }
            },
            FAst::Call1(n, x) => {
                let v = self.eval(x)?;
                if *n == "math::abs" {
                    return match v {
                        Sv::I(i) => i.checked_abs().map(Sv::I),
                        Sv::F(f) => self.float(f.abs()),
                        _ => None,
                    };
                }
                let f = self.num(v)?;
                self.float(match *n {
                    "floor" => f.floor(),
                    "ceil" => f.ceil(),
                    "round" => f.round(),
                    "math::sqrt" => f.sqrt(),
                    "math::exp" => f.exp(),
                    "math::ln" => f.ln(),
                    _ => f.cbrt(),
                })
            },
            FAst::CallN(n, xs) => {
                let mut vs = Vec::new();
                for x in xs {
                    vs.push(self.eval(x)?);
                }
                if n.starts_with("math") {
                    let (x, y) = (self.num(vs[0])?, self.num(vs[1])?);
                    self.pairs.push((x, y));
                    return self.float(match *n {
                        "math::pow" => x.powf(y),
                        "math::hypot" => x.hypot(y),
                        _ => x.atan2(y),
                    });
                }
                // min / max: the best integer, the best float, then the two against each other after conversion; the
                // documentation leaves NaN open - the specification goes on with its placeholder quiet NaN
                let want_min = *n == "min";
                let (mut bi, mut bf): (Option<i64>, Option<f64>) = (None, None);
                for v in &vs {
                    match *v {
                        Sv::I(i) => bi = Some(match bi { Some(b) if (want_min && b <= i) || (!want_min && b >= i) => b, _ => i }),
                        Sv::F(f) if f.is_nan() => {
                            self.undoc = true;
                            return self.float(f64::from_bits(0x7ff8_0000_0000_0000));
                        },
                        Sv::F(f) => bf = Some(match bf { Some(b) if (want_min && b <= f) || (!want_min && b >= f) => b, _ => f }),
                        _ => return None,
                    }
                }
                match (bi, bf) {
                    (Some(i), None) => Some(Sv::I(i)),
                    (None, Some(f)) => self.float(f),
                    (Some(i), Some(f)) => {
                        let c = self.num(Sv::I(i))?;
                        if c == f {
                            self.undoc = true;
                        }
                        if (want_min && c < f) || (!want_min && c > f) { Some(Sv::I(i)) } else { self.float(f) }
                    },
                    (None, None) => None,
                }
            },
            FAst::If(c, x, y) => {
                // `if` is a function: all three arguments are evaluated first
                let (c, x, y) = (self.eval(c)?, self.eval(x)?, self.eval(y)?);
                match c {
                    Sv::B(true) => Some(x),
                    Sv::B(false) => Some(y),
                    _ => None,
                }
            },
            FAst::Assign(n, op, rhs) => {
                let r = self.eval(rhs)?;
                if !self.mutable {
                    return None;
                }
                let new = if *op == "=" {
                    r
                } else {
                    let cur = self.env.get(n).copied()?;
                    self.arith(&op[..op.len() - 1], cur, r)?
                };
                let same = matches!(
                    (self.env.get(n), new),
                    (Some(Sv::I(_)), Sv::I(_)) | (Some(Sv::F(_)), Sv::F(_)) | (Some(Sv::B(_)), Sv::B(_)) | (Some(Sv::U), Sv::U) | (None, _)
                );
                if !same {
                    return None;
                }
                self.env.insert(n, new);
                Some(Sv::U)
            },
            FAst::Chain(es) => {
                let mut last = Sv::U;
                for e in es {
                    last = self.eval(e)?;
                }
                Some(last)
            },
        }
    }
}

pub fn gen_floatprogs(rec: &mut Recorder, rng: &mut StdRng, n: usize) {
    use crate::entry::*;
    let log: Log = Default::default();
    let probe: Vec<String> = vec!["never_defined".into()];
    rec.words.extend(FLITS.iter().filter(|w| w.parse::<i64>().is_err()).map(|w| w.to_string()));
    let mut c = HashMapContext::<DefaultNumericTypes>::new();
    let mut env: std::collections::HashMap<&'static str, Sv> = Default::default();
    // moderate magnitudes most of the time, so that nested results stay finite and distinct; the edge values now and then
    let pick_float = |rng: &mut StdRng| -> f64 {
        match rng.gen_range(0..11) {
            // where one more rounding shows: the end of the exactly representable integers, and fractions without a finite
            // binary expansion
            10 => *[9007199254740992.0, -9007199254740992.0, 9007199254740994.0, 1e16, 0.1, 1.0 / 3.0, 1e-17, 4503599627370497.5].choose(rng).unwrap(),
            0..=1 => rand_float(rng),
            2..=5 => (rng.gen_range(-4000..4000) as f64) / 16.0,
            _ => (rng.gen::<f64>() - 0.5) * 10f64.powi(rng.gen_range(-3..6)),
        }
    };
    let mut fresh = true;
    for k in 0..n {
        if fresh || k % 12 == 0 {
            c = HashMapContext::new();
            env.clear();
            let mut vars: Vec<(String, V)> = Vec::new();
            for v in FVARS {
                let f = pick_float(rng);
                rec.floats.push(f);
                env.insert(v, Sv::F(f));
                vars.push((v.to_string(), Value::Float(f)));
            }
            for v in IVARS {
                let i = if rng.gen_bool(0.6) { rng.gen_range(-9..10) } else { rand_int(rng) };
                env.insert(v, Sv::I(i));
                vars.push((v.to_string(), Value::Int(i)));
            }
            for (n, v) in &vars {
                c.set_value(n.clone(), v.clone()).unwrap();
            }
            rec.emit(json!({"ev": "ctx", "slot": 0, "ctx": ctx_json(&vars, &[], false)}));
            fresh = false;
        }
        // the shadow walk: which primitive facts the specification will need (see the head of this section)
        let (src, mode) = loop {
            let depth = rng.gen_range(1..5);
            let ast = if rng.gen_range(0..3) == 0 {
                FAst::Chain((0..rng.gen_range(2..4)).map(|_| gen_fstmt(rng, depth.min(3))).collect())
            } else {
                gen_fstmt(rng, depth)
            };
            let mode = if rng.gen_range(0..6) == 0 { Mode::Imm } else { Mode::Mut };
            let mut sh = Shadow { env: env.clone(), floats: &mut rec.floats, pairs: &mut rec.pairs, mutable: mode == Mode::Mut, undoc: false };
            let _ = sh.eval(&ast);
            if sh.undoc {
                continue;
            }
            if mode == Mode::Mut {
                env = sh.env;
            }
            let mut src = String::new();
            frender(&ast, 0, rng, &mut src);
            break (src, mode);
        };
        let kind = match rng.gen_range(0..10) {
            0 => Kind::Float,
            1 => Kind::Number,
            2 => Kind::Int,
            _ => Kind::Value,
        };
        let tree_level = rng.gen_bool(0.3);
        log.lock().unwrap().clear();
        let tree = guard(|| build_operator_tree::<DefaultNumericTypes>(&src));
        let r = guard(|| {
            if tree_level {
                match build_operator_tree::<DefaultNumericTypes>(&src) {
                    Ok(t) => call_tree(kind, mode, &t, &mut c),
                    Err(e) => Err(e),
                }
            } else {
                call_string(kind, mode, &src, &mut c)
            }
        });
        let post = project_hashmap(&c, &probe, &log).unwrap_or_else(|e| json!({"error": e}));
        let mut ev = json!({"ev": "eval", "slot": 0, "src": cps(&src), "level": if tree_level { "tree" } else { "string" },
                            "ek": kind.name(), "mode": mode.name(), "res": res_json(&r), "post": post, "log": log_json(&[])});
        if let Ok(Ok(t)) = &tree {
            ev["tree"] = enc_tree(&normalise(t));
        }
        rec.emit(ev);
        if r.is_err() {
            fresh = true;
        }
    }
}
