//! Spec -> code: every case emitted by a TLC model is executed on the real crate and the
//! observation is checked against the outcome set the specification allows.
use crate::ctx::*;
use crate::enc::*;
use crate::entry::*;
use crate::guard::guard;
use evalexpr::*;
use serde_json::{json, Value as J};
use std::collections::hash_map::DefaultHasher;
use std::collections::{BTreeMap, HashSet};
use std::hash::{Hash, Hasher};

pub struct Failure {
    pub check: String,
    pub detail: String,
    pub case: J,
    pub observed: J,
    pub finding_key: J,
}

pub struct State {
    pub cases: u64,
    pub bad_lines: u64,
    pub counters: BTreeMap<String, u64>,
    pub distinct: BTreeMap<String, HashSet<u64>>,
    pub failures: Vec<Failure>,
    pub failure_count: u64,
    pub failure_checks: BTreeMap<String, u64>,
    pub max_fail: usize,
    pub samples: BTreeMap<String, Vec<J>>,
}

pub fn hash_of(j: &J) -> u64 {
    let mut h = DefaultHasher::new();
    j.to_string().hash(&mut h);
    h.finish()
}

/// The finding key a case carries (a text given as code points, or a plain string).
pub fn fk_of(case: &J) -> J {
    match case.get("fk") {
        Some(j) if j.is_array() => json!(from_cps(j)),
        Some(j) => j.clone(),
        None => json!(null),
    }
}

pub fn text_of(j: &J) -> String {
    from_cps(j)
}

/// A populated context used wherever a case does not prescribe one: x = 1, y = 2, f = identity.
pub fn populated() -> HashMapContext<DefaultNumericTypes> {
    let mut c = HashMapContext::<DefaultNumericTypes>::new();
    c.set_value("x".into(), Value::Int(1)).unwrap();
    c.set_value("y".into(), Value::Int(2)).unwrap();
    c.set_function("f".into(), Function::new(|a| Ok(a.clone()))).unwrap();
    c
}

impl State {
    pub fn new(max_fail: usize) -> Self {
        State {
            cases: 0,
            bad_lines: 0,
            counters: BTreeMap::new(),
            distinct: BTreeMap::new(),
            failures: Vec::new(),
            failure_count: 0,
            failure_checks: BTreeMap::new(),
            max_fail,
            samples: BTreeMap::new(),
        }
    }

    pub fn merge(&mut self, o: State) {
        self.cases += o.cases;
        self.bad_lines += o.bad_lines;
        for (k, v) in o.counters {
            *self.counters.entry(k).or_insert(0) += v;
        }
        for (k, v) in o.distinct {
            self.distinct.entry(k).or_default().extend(v);
        }
        self.failure_count += o.failure_count;
        for (k, v) in o.failure_checks {
            *self.failure_checks.entry(k).or_insert(0) += v;
        }
        for f in o.failures {
            let same = self.failures.iter().filter(|g| g.check == f.check && g.finding_key == f.finding_key).count();
            if same < self.max_fail {
                self.failures.push(f);
            }
        }
        for (k, v) in o.samples {
            let e = self.samples.entry(k).or_default();
            for s in v {
                if e.len() < 3 {
                    e.push(s);
                }
            }
        }
    }

    pub fn count(&mut self, name: &str) {
        *self.counters.entry(name.to_string()).or_insert(0) += 1;
    }

    /// Counts `case` as a distinct member of the named category (by content hash).
    pub fn distinct(&mut self, name: &str, case: &J) {
        self.distinct.entry(name.to_string()).or_default().insert(hash_of(case));
    }

    pub fn sample(&mut self, name: &str, j: J) {
        let v = self.samples.entry(name.to_string()).or_default();
        if v.len() < 3 {
            v.push(j);
        }
    }

    pub fn fail(&mut self, check: &str, detail: String, case: &J, observed: J) {
        self.fail_key(check, detail, case, observed, json!(null))
    }

    pub fn fail_key(&mut self, check: &str, detail: String, case: &J, observed: J, finding_key: J) {
        self.failure_count += 1;
        *self.failure_checks.entry(check.to_string()).or_insert(0) += 1;
        // keep the first failures of every (check, finding key) group, so that one noisy group cannot hide another
        let same = self.failures.iter().filter(|f| f.check == check && f.finding_key == finding_key).count();
        if same < self.max_fail {
            self.failures.push(Failure { check: check.to_string(), detail, case: case.clone(), observed, finding_key });
        }
    }

    pub fn run_case(&mut self, case: &J) {
        self.cases += 1;
        let kind = case.get("kind").and_then(|k| k.as_str()).unwrap_or("");
        match kind {
            "parse" => self.run_parse(case),
            "eval" => self.run_eval(case),
            "history" => self.run_history(case),
            "impl" => self.run_impl(case),
            "value_api" => self.run_value_api(case),
            "cli" => self.run_cli(case),
            _ => {
                self.count("unknown_kind");
            },
        }
    }

    pub fn summary(&self) -> J {
        let distinct: BTreeMap<&String, usize> = self.distinct.iter().map(|(k, v)| (k, v.len())).collect();
        json!({
            "cases": self.cases,
            "bad_lines": self.bad_lines,
            "counters": self.counters,
            "distinct": distinct,
            "failure_count": self.failure_count,
            "failure_checks": self.failure_checks,
            "failures": self.failures.iter().map(|f| json!({
                "check": f.check, "detail": f.detail, "case": f.case, "observed": f.observed,
                "finding_key": f.finding_key})).collect::<Vec<_>>(),
            "samples": self.samples,
        })
    }

    // ------------------------------------------------------------------------------------------
    // kind "parse": a token sequence with its classification by Grammar.tla
    // ------------------------------------------------------------------------------------------
    fn run_parse(&mut self, case: &J) {
        let toks: Vec<String> =
            case["toks"].as_array().map(|a| a.iter().map(text_of).collect()).unwrap_or_default();
        let src = if case.get("src").is_some() { text_of(&case["src"]) } else { toks.join(" ") };
        let check_wf = case["check"].as_str().unwrap_or("wf_tree").to_string();
        let class = case["class"].as_str().unwrap_or("");
        let bal = case["bal"].as_bool().unwrap_or(true);
        self.count(&format!("class_{class}"));
        let built = guard(|| build_operator_tree::<DefaultNumericTypes>(&src));
        let built = match built {
            Ok(b) => b,
            Err(p) => {
                self.fail("panic", format!("build_operator_tree({src:?}) panicked at {p}"), case, json!({"panic": p}));
                return;
            },
        };
        let observed = match &built {
            Ok(t) => json!({"ok": true, "tree": enc_tree(&normalise(t))}),
            Err(e) => json!({"ok": false, "e": enc_error(e)}),
        };
        match class {
            "WF" => {
                self.distinct("wf", case);
                if toks.len() >= 3 {
                    self.distinct("wf_len3", case);
                }
                let has = |t: &str| toks.iter().any(|x| x == t);
                if has(",") && has(";") {
                    self.distinct("wf_comma_and_semicolon", case);
                }
                self.sample("WF", json!({"source": src, "expected_tree": case["tree"], "observed": observed}));
                match (&built, dec_tree(&case["tree"])) {
                    (Ok(t), Some(want)) => {
                        let got = normalise(t);
                        if !same_tree(&got, &want) {
                            self.fail_key(&check_wf, format!("{src:?}: tree differs from the specification's"), case, observed.clone(), fk_of(case));
                        }
                        self.check_occurrences(case, &src, t);
                    },
                    (Err(e), _) => {
                        if bal && matches!(e, EvalexprError::UnmatchedLBrace | EvalexprError::UnmatchedRBrace) {
                            self.fail("balanced_reported_unbalanced", format!("{src:?}: balanced input reported as {e:?}"), case, observed.clone());
                        }
                        self.fail_key(&check_wf, format!("{src:?}: well-formed input rejected with {e:?}"), case, observed.clone(), fk_of(case))
                    },
                    (_, None) => self.bad_lines += 1,
                }
            },
            // well-formed, but it contains a literal whose VALUE the documentation does not fix (a decimal word beyond
            // i64): if the crate accepts the input, the operator tree must have the specification's shape - which tokens
            // are operators, how they nest - with the constants' values left open; rejecting the input is allowed
            "WFU" => {
                self.distinct("wfu", case);
                fn same_shape(a: &NTree, b: &NTree) -> bool {
                    a.o == b.o && a.n == b.n && a.k.len() == b.k.len() && a.k.iter().zip(&b.k).all(|(x, y)| same_shape(x, y))
                }
                if let (Ok(t), Some(want)) = (&built, dec_tree(&case["tree"])) {
                    let got = normalise(t);
                    if !same_shape(&got, &want) {
                        self.fail("wfu_shape", format!("{src:?}: the shape of the tree differs from the specification's"), case, observed.clone());
                    }
                }
            },
            "LEXERR" => {
                self.distinct("lexerr", case);
                self.sample("LEXERR", json!({"source": src, "observed": observed}));
                if built.is_ok() {
                    self.fail(&check_wf, format!("{src:?}: the specification's lexer rejects this input, the crate accepts it"), case,
                              observed.clone());
                }
            },
            "IF" => {
                self.distinct("if", case);
                self.sample("IF", json!({"source": src, "balanced": bal, "observed": observed}));
                match &built {
                    Ok(t) => {
                        if !bal {
                            self.fail("unbalanced_accepted", format!("{src:?}: unbalanced input precompiles"), case, observed.clone());
                        }
                        if !arity_deficient(t) {
                            self.fail(
                                "if_accepted",
                                format!("{src:?}: ill-formed input precompiles to a tree with correct arities"),
                                case,
                                observed.clone(),
                            );
                        }
                        // whatever the tree looks like, no evaluation may succeed
                        let mut ctxs = [HashMapContext::<DefaultNumericTypes>::new(), populated()];
                        for c in ctxs.iter_mut() {
                            let r = guard(|| t.eval_with_context_mut(c));
                            match r {
                                Ok(Ok(v)) => self.fail(
                                    "if_evaluates",
                                    format!("{src:?}: ill-formed input evaluates to {v:?}"),
                                    case,
                                    json!({"ok": true, "v": enc_value(&v)}),
                                ),
                                Ok(Err(_)) => {},
                                Err(p) => self.fail("panic", format!("eval of {src:?} panicked at {p}"), case, json!({"panic": p})),
                            }
                        }
                        // nor through the read-only walk (a second implementation of the evaluation)
                        match guard(|| t.eval_with_context(&ctxs[1])) {
                            Ok(Ok(v)) => self.fail(
                                "if_evaluates",
                                format!("{src:?}: ill-formed input evaluates to {v:?} (read-only evaluation)"),
                                case,
                                json!({"ok": true, "v": enc_value(&v), "mode": "imm"}),
                            ),
                            Ok(Err(_)) => {},
                            Err(p) => self.fail("panic", format!("read-only eval of {src:?} panicked at {p}"), case, json!({"panic": p})),
                        }
                    },
                    Err(e) => {
                        if bal && matches!(e, EvalexprError::UnmatchedLBrace | EvalexprError::UnmatchedRBrace) {
                            self.fail(
                                "balanced_reported_unbalanced",
                                format!("{src:?}: balanced input reported as {e:?}"),
                                case,
                                observed.clone(),
                            );
                        }
                    },
                }
            },
            _ => {
                self.distinct("unspec", case);
                self.sample("UNSPEC", json!({"source": src, "observed": observed}));
                if let Err(e) = &built {
                    if bal && matches!(e, EvalexprError::UnmatchedLBrace | EvalexprError::UnmatchedRBrace) {
                        self.fail(
                            "balanced_reported_unbalanced",
                            format!("{src:?}: balanced input reported as {e:?}"),
                            case,
                            observed.clone(),
                        );
                    }
                }
            },
        }
        // C07: a second rendering of the same token sequence (other separators) must precompile to an equal tree or
        // fail with the same error
        if case.get("src2").is_some() {
            let src2 = text_of(&case["src2"]);
            self.distinct("two_renderings", case);
            match guard(|| build_operator_tree::<DefaultNumericTypes>(&src2)) {
                Ok(b2) => {
                    let same = match (&built, &b2) {
                        (Ok(a), Ok(b)) => a == b,
                        (Err(a), Err(b)) => a == b,
                        _ => false,
                    };
                    if !same {
                        let show = |r: &Result<Tree, E>| match r {
                            Ok(t) => format!("Ok({t})"),
                            Err(e) => format!("Err({e:?})"),
                        };
                        self.fail("separators", format!("{src:?} gives {} but {src2:?} gives {}", show(&built), show(&b2)), case,
                                  json!({"second": match &b2 { Ok(t) => json!({"ok": true, "tree": enc_tree(&normalise(t))}),
                                                               Err(e) => json!({"ok": false, "e": enc_error(e)}) }}));
                    }
                    self.sample("two_renderings", json!({"first": src, "second": src2, "equal": same}));
                },
                Err(p) => self.fail("panic", format!("build_operator_tree({src2:?}) panicked at {p}"), case, json!({"panic": p})),
            }
        }
        // C12 (code against code, for every class of input): a precompilation error is returned unchanged by every
        // string-level entry point; otherwise string level and tree level agree
        match guard(|| entry_consistency(&src, &built)) {
            Ok(Ok(())) => {},
            Ok(Err(d)) => self.fail("entry_consistency", format!("{src:?}: {d}"), case, json!(null)),
            Err(p) => self.fail("panic", format!("{src:?}: entry points panicked at {p}"), case, json!({"panic": p})),
        }
        // C01: every entry point and every formatter returns normally, for every class of input
        if let Err(p) = exercise_everything(&src, built.as_ref().ok()) {
            self.fail("panic", format!("{src:?}: {p}"), case, json!({"panic": p}));
        }
    }

    // ------------------------------------------------------------------------------------------
    // kind "eval": one evaluation call on a prescribed context, with the allowed outcome patterns,
    // the context and the user-function call log afterwards
    // ------------------------------------------------------------------------------------------
    fn run_eval(&mut self, case: &J) {
        let check = case["check"].as_str().unwrap_or("eval").to_string();
        let src = if case.get("src").is_some() {
            text_of(&case["src"])
        } else {
            case["toks"].as_array().map(|a| a.iter().map(text_of).collect::<Vec<_>>().join(" ")).unwrap_or_default()
        };
        let level = case["level"].as_str().unwrap_or("string");
        let kind = Kind::parse(case["ek"].as_str().unwrap_or("value")).unwrap_or(Kind::Value);
        let mode = Mode::parse(case["mode"].as_str().unwrap_or("mut")).unwrap_or(Mode::Mut);
        let exact = case["exact"].as_bool().unwrap_or(false);
        let det = case["det"].as_bool().unwrap_or(true);
        self.count(&format!("eval_{check}"));
        if let Some(t) = case["nontrivial"].as_bool() {
            if t {
                self.distinct(&format!("{check}_nontrivial"), case);
            }
        } else {
            self.distinct(&format!("{check}_nontrivial"), case);
        }
        let log: Log = Default::default();
        let ctx = match build_ctx(&case["ctx"], &log) {
            Ok(c) => c,
            Err(e) => {
                self.fail("harness_ctx", format!("cannot build the context of the case: {e}"), case, json!(null));
                return;
            },
        };
        let mut ctx = ctx;
        let obs = guard(|| -> Result<V, E> {
            let tree = if level == "tree" { Some(build_operator_tree::<DefaultNumericTypes>(&src)?) } else { None };
            match (&mut ctx, &tree) {
                (Ctx::HashMap(c), None) => call_string(kind, mode, &src, c),
                (Ctx::HashMap(c), Some(t)) => call_tree(kind, mode, t, c),
                (Ctx::ReadOnly(c), None) => call_string(kind, mode, &src, c),
                (Ctx::ReadOnly(c), Some(t)) => call_tree(kind, mode, t, c),
                (Ctx::Empty(c), None) => call_string_imm(kind, &src, c),
                (Ctx::Empty(c), Some(t)) => call_tree_imm(kind, t, c),
                (Ctx::EmptyBuiltin(c), None) => call_string_imm(kind, &src, c),
                (Ctx::EmptyBuiltin(c), Some(t)) => call_tree_imm(kind, t, c),
            }
        });
        let obs = match obs {
            Ok(o) => o,
            Err(p) => {
                self.fail("panic", format!("{src:?} ({level} {} {}) panicked at {p}", kind.name(), mode.name()), case, json!({"panic": p}));
                return;
            },
        };
        let fmt = guard(|| match &obs {
            Ok(v) => format!("{v} {v:?}"),
            Err(e) => format!("{e} {e:?}"),
        });
        if let Err(p) = fmt {
            self.fail("panic", format!("formatting the result of {src:?} panicked at {p}"), case, json!({"panic": p}));
        }
        let pats = case["allowed"].as_array().cloned().unwrap_or_default();
        let observed = enc_obs(&obs);
        self.sample(&check, json!({"source": src, "level": level, "entry": format!("{}_{}", kind.name(), mode.name()),
                                   "context": case["ctx"], "allowed": case["allowed"], "observed": observed}));
        if !pats.iter().any(|p| matches(p, &obs, exact)) {
            let fk = fk_of(case);
            self.fail_key(
                &check,
                format!("{src:?} ({level}-level eval_{}_{}): observed {}, the specification allows {}", kind.name(), mode.name(),
                        observed["text"].as_str().unwrap_or(""), brief_patterns(&pats)),
                case,
                observed.clone(),
                fk,
            );
            return;
        }
        // C12: repeating the evaluation from an equal context state gives an equal result (no hidden state)
        if check == "entry" {
            let log2: Log = Default::default();
            if let Ok(mut ctx2) = build_ctx(&case["ctx"], &log2) {
                let again = guard(|| -> Result<V, E> {
                    let tree = if level == "tree" { Some(build_operator_tree::<DefaultNumericTypes>(&src)?) } else { None };
                    match (&mut ctx2, &tree) {
                        (Ctx::HashMap(c), None) => call_string(kind, mode, &src, c),
                        (Ctx::HashMap(c), Some(t)) => call_tree(kind, mode, t, c),
                        (Ctx::ReadOnly(c), None) => call_string(kind, mode, &src, c),
                        (Ctx::ReadOnly(c), Some(t)) => call_tree(kind, mode, t, c),
                        (Ctx::Empty(c), None) => call_string_imm(kind, &src, c),
                        (Ctx::Empty(c), Some(t)) => call_tree_imm(kind, t, c),
                        (Ctx::EmptyBuiltin(c), None) => call_string_imm(kind, &src, c),
                        (Ctx::EmptyBuiltin(c), Some(t)) => call_tree_imm(kind, t, c),
                    }
                });
                match again {
                    Ok(r2) if same_result(&obs, &r2) => {},
                    Ok(r2) => self.fail(&check, format!("{src:?}: a second evaluation from an equal context gives {r2:?}, the first gave {obs:?}"), case, json!(null)),
                    Err(p) => self.fail("panic", format!("{src:?}: second evaluation panicked at {p}"), case, json!({"panic": p})),
                }
            }
        }
        if !det {
            return;
        }
        // the context and the call log after the call
        let hm = match &ctx {
            Ctx::HashMap(c) => Some(c),
            Ctx::ReadOnly(c) => Some(&c.inner),
            _ => None,
        };
        if let (Some(c), Some(post)) = (hm, case.get("post")) {
            let calls: Vec<(String, V)> = log.lock().unwrap().clone();
            match guard(|| project_hashmap(c, &func_names(&case["ctx"]), &log)) {
                Ok(Ok(got)) => {
                    let want = project_spec(post);
                    if !same_projection(&got, &want) {
                        self.fail(&check, format!("{src:?}: context afterwards {got}, the specification says {want}"), case,
                                  json!({"post": got}));
                    }
                },
                Ok(Err(e)) => self.fail(&check, format!("{src:?}: inconsistent context listing: {e}"), case, json!(null)),
                Err(p) => self.fail("panic", format!("{src:?}: context projection panicked at {p}"), case, json!({"panic": p})),
            }
            if let Some(want_log) = case.get("log").and_then(|l| l.as_array()) {
                let same = want_log.len() == calls.len()
                    && want_log.iter().zip(calls.iter()).all(|(w, (n, a))| {
                        text_of(&w["n"]) == *n && dec_value(&w["a"]).map(|x| same_value(&x, a)).unwrap_or(false)
                    });
                if !same {
                    let got: Vec<String> = calls.iter().map(|(n, a)| format!("{n}({a})")).collect();
                    let want: Vec<String> =
                        want_log.iter().map(|w| format!("{}({})", text_of(&w["n"]), dec_value(&w["a"]).map(|v| v.to_string()).unwrap_or_default())).collect();
                    self.fail(&check, format!("{src:?}: user-function calls {got:?}, the specification says {want:?}"), case,
                              json!({"log": got}));
                }
            }
        }
    }

    // ------------------------------------------------------------------------------------------
    // kind "value_api": one accessor of `Value` on one value (MC_ValueApi.tla)
    // ------------------------------------------------------------------------------------------
    fn run_value_api(&mut self, case: &J) {
        let acc = case["acc"].as_str().unwrap_or("");
        self.count("value_api_cases");
        self.distinct("value_api", case);
        let v = match dec_value(&case["v"]) {
            Some(v) => v,
            None => {
                self.bad_lines += 1;
                return;
            },
        };
        let type_name = |v: &V| match ValueType::from(v) {
            ValueType::String => "string",
            ValueType::Float => "float",
            ValueType::Int => "int",
            ValueType::Boolean => "boolean",
            ValueType::Tuple => "tuple",
            ValueType::Empty => "empty",
        };
        let r = guard(|| -> Result<V, E> {
            use std::convert::TryFrom;
            Ok(match acc {
                "value" => v.clone(),
                "string" => {
                    let a = v.as_string().map(Value::String)?;
                    // the TryFrom impl and the predicate agree with the accessor
                    if String::try_from(v.clone()).is_ok() != v.is_string() {
                        return Err(EvalexprError::CustomMessage("TryFrom<Value> for String disagrees with is_string".into()));
                    }
                    a
                },
                "int" => v.as_int().map(Value::Int)?,
                "float" => v.as_float().map(Value::Float)?,
                "number" => v.as_number().map(Value::Float)?,
                "boolean" => {
                    if bool::try_from(v.clone()).is_ok() != v.is_boolean() {
                        return Err(EvalexprError::CustomMessage("TryFrom<Value> for bool disagrees with is_boolean".into()));
                    }
                    v.as_boolean().map(Value::Boolean)?
                },
                "tuple" => v.as_tuple().map(Value::Tuple)?,
                "empty" => v.as_empty().map(|_| Value::Empty)?,
                "fixed2" => v.as_fixed_len_tuple(2).map(Value::Tuple)?,
                "ranged23" => v.as_ranged_len_tuple(2..=3).map(Value::Tuple)?,
                "type" => Value::String(type_name(&v).to_string()),
                "str_from" => Value::String(v.str_from()),
                other => return Err(EvalexprError::CustomMessage(format!("harness: unknown accessor {other}"))),
            })
        });
        let r = match r {
            Ok(r) => r,
            Err(p) => {
                self.fail("panic", format!("Value accessor {acc} on {v:?} panicked at {p}"), case, json!({"panic": p}));
                return;
            },
        };
        // the is_* predicates are the Ok-ness of the corresponding accessor
        let pred = match acc {
            "string" => Some(v.is_string()),
            "int" => Some(v.is_int()),
            "float" => Some(v.is_float()),
            "number" => Some(v.is_number()),
            "boolean" => Some(v.is_boolean()),
            "tuple" => Some(v.is_tuple()),
            "empty" => Some(v.is_empty()),
            _ => None,
        };
        if let Some(p) = pred {
            if p != r.is_ok() {
                self.fail("value_api", format!("is_{acc}({v:?}) = {p} but as_{acc} is {}", if r.is_ok() { "Ok" } else { "Err" }), case, json!(null));
            }
        }
        let pats = case["allowed"].as_array().cloned().unwrap_or_default();
        if !pats.iter().any(|p| matches(p, &r, true)) {
            self.fail("value_api", format!("{acc} of {v:?}: observed {}, the specification allows {}", enc_obs(&r)["text"].as_str().unwrap_or(""),
                                           brief_patterns(&pats)), case, enc_obs(&r));
        }
        self.sample("value_api", json!({"accessor": acc, "value": format!("{v:?}"), "observed": enc_obs(&r)["text"]}));
    }

    // ------------------------------------------------------------------------------------------
    // kind "impl": the exact outcome of the implementation-shaped builder model (TreeBuilder.tla) for a token
    // sequence: tree (normal form) or error variant.  A diagnostic, never a property verdict.
    // ------------------------------------------------------------------------------------------
    fn run_impl(&mut self, case: &J) {
        let toks: Vec<String> = case["toks"].as_array().map(|a| a.iter().map(text_of).collect()).unwrap_or_default();
        // a case of MC_Tokenizer carries the source text itself, a case of MC_TreeBuilder its tokens
        let src = match case.get("src") {
            Some(s) if s.is_array() => text_of(s),
            _ => toks.join(" "),
        };
        self.count("impl_cases");
        self.distinct("impl", case);
        let built = match guard(|| build_operator_tree::<DefaultNumericTypes>(&src)) {
            Ok(b) => b,
            Err(p) => {
                self.fail("panic", format!("build_operator_tree({src:?}) panicked at {p}"), case, json!({"panic": p}));
                return;
            },
        };
        let want_ok = case["ok"].as_bool().unwrap_or(false);
        match (&built, want_ok) {
            (Ok(t), true) => {
                let got = normalise(t);
                if let Some(want) = dec_tree(&case["tree"]) {
                    if !same_tree(&got, &want) {
                        self.fail("impl_model", format!("{src:?}: the builder model predicts another tree"), case, json!({"tree": enc_tree(&got)}));
                    }
                }
                // Display of the tree (prefix notation with the wrapper nodes printing nothing)
                if case.get("disp").is_some() {
                    let shown = format!("{t}");
                    let want = text_of(&case["disp"]);
                    if shown != want {
                        self.fail("impl_model", format!("{src:?}: Display gives {shown:?}, the model {want:?}"), case, json!({"display": shown}));
                    }
                }
            },
            (Err(e), false) => {
                let got = enc_error(e);
                if got["e"] != case["err"] {
                    self.fail("impl_model", format!("{src:?}: error {} but the builder model predicts {}", got["e"], case["err"]), case, got);
                }
            },
            (Ok(_), false) => self.fail("impl_model", format!("{src:?}: accepted, the builder model predicts {}", case["err"]), case, json!(null)),
            (Err(e), true) => self.fail("impl_model", format!("{src:?}: rejected with {e:?}, the builder model predicts a tree"), case, json!(null)),
        }
        self.sample("impl", json!({"source": src, "model_ok": want_ok, "model_error": case["err"]}));
    }

    // ------------------------------------------------------------------------------------------
    // kind "cli": the command line program (path in EVALEXPR_BIN) with the given arguments: exit status and
    // standard output must be the specification's (MC_Cli.tla; a diagnostic)
    // ------------------------------------------------------------------------------------------
    fn run_cli(&mut self, case: &J) {
        let bin = match std::env::var("EVALEXPR_BIN") {
            Ok(b) => b,
            Err(_) => {
                self.count("cli_skipped");
                return;
            },
        };
        let args: Vec<String> = case["args"].as_array().map(|a| a.iter().map(text_of).collect()).unwrap_or_default();
        self.count("cli_cases");
        let out = match std::process::Command::new(&bin).args(&args).output() {
            Ok(o) => o,
            Err(e) => {
                self.fail("cli", format!("cannot run {bin}: {e}"), case, json!(null));
                return;
            },
        };
        let stdout = String::from_utf8_lossy(&out.stdout).to_string();
        let want = text_of(&case["text"]);
        let observed = json!({"status": out.status.code(), "stdout": stdout});
        match case["k"].as_str().unwrap_or("any") {
            "ok" => {
                if !out.status.success() || stdout != want {
                    self.fail("cli", format!("evalexpr {args:?}: status {:?}, stdout {stdout:?}; the specification says status 0, stdout {want:?}", out.status.code()), case, observed);
                }
            },
            "fail" => {
                if out.status.success() || !stdout.is_empty() {
                    self.fail("cli", format!("evalexpr {args:?}: status {:?}, stdout {stdout:?}; the specification says failure and no output", out.status.code()), case, observed);
                }
            },
            _ => {
                if out.status.code().is_none() {
                    self.fail("panic", format!("evalexpr {args:?} was killed by a signal"), case, observed);
                }
            },
        }
        self.sample("cli", json!({"args": args, "expected": case["k"], "stdout": want}));
    }

    // ------------------------------------------------------------------------------------------
    // kind "history": a sequence of context operations on two slots (MC_Ctx.tla); the return value
    // of every step and the projection of both slots after the last step are compared
    // ------------------------------------------------------------------------------------------
    fn run_history(&mut self, case: &J) {
        let check = case["check"].as_str().unwrap_or("history").to_string();
        let steps = case["steps"].as_array().cloned().unwrap_or_default();
        self.count("history");
        if steps.len() >= 2 {
            self.distinct("history_len2", case);
        }
        let log: Log = Default::default();
        let mut slots: Vec<Option<HashMapContext<DefaultNumericTypes>>> = vec![Some(HashMapContext::new()), None];
        let mut probe: Vec<String> = vec!["never_defined".into()];
        let mut trail: Vec<String> = Vec::new();
        // every second case evaluates through precompiled trees that are REUSED across the steps of the history: a tree must
        // not remember anything about the context it was evaluated in before (the context changes between the steps)
        let reuse_trees = self.cases % 2 == 0;
        let mut trees: std::collections::HashMap<String, Tree> = std::collections::HashMap::new();
        for (i, step) in steps.iter().enumerate() {
            let call = &step["call"];
            let op = call["op"].as_str().unwrap_or("");
            let s = call["slot"].as_u64().unwrap_or(0) as usize;
            let n = text_of(&call["n"]);
            let is_last = i + 1 == steps.len();
            if is_last {
                self.count(&format!("history_last_{op}"));
            }
            let mut none = false;
            let r: Result<Result<V, E>, String> = guard(|| {
                if op == "clone" {
                    // `Clone::clone_from` where the target exists (a hand-written clone_from is a second implementation of
                    // cloning), `clone` where it does not
                    let src = slots[s].clone();
                    match (src, slots[1 - s].as_mut()) {
                        (Some(src), Some(dst)) => dst.clone_from(&src),
                        (src, _) => slots[1 - s] = src,
                    }
                    return Ok(Value::Empty);
                }
                let c = match slots[s].as_mut() {
                    Some(c) => c,
                    None => return Err(EvalexprError::CustomMessage("harness: absent slot".into())),
                };
                match op {
                    "set_value" => c.set_value(n.clone(), dec_value(&call["v"]).unwrap_or(Value::Empty)).map(|_| Value::Empty),
                    "eval" => {
                        let src = call["toks"].as_array().map(|a| a.iter().map(text_of).collect::<Vec<_>>().join(" ")).unwrap_or_default();
                        let imm = call["mode"].as_str() == Some("imm");
                        if reuse_trees {
                            if !trees.contains_key(&src) {
                                trees.insert(src.clone(), build_operator_tree::<DefaultNumericTypes>(&src)?);
                            }
                            let t = &trees[&src];
                            if imm {
                                t.eval_with_context(&*c)
                            } else {
                                t.eval_with_context_mut(c)
                            }
                        } else if imm {
                            eval_with_context(&src, &*c)
                        } else {
                            eval_with_context_mut(&src, c)
                        }
                    },
                    "get_value" => match c.get_value(&n) {
                        Some(v) => Ok(v.clone()),
                        None => {
                            none = true;
                            Err(EvalexprError::CustomMessage("None".into()))
                        },
                    },
                    "clear_variables" => {
                        c.clear_variables();
                        Ok(Value::Empty)
                    },
                    "clear_functions" => {
                        c.clear_functions();
                        Ok(Value::Empty)
                    },
                    "clear" => {
                        c.clear();
                        Ok(Value::Empty)
                    },
                    "set_function" => c
                        .set_function(n.clone(), make_function(&n, call["b"].as_str().unwrap_or("id"), dec_value(&call["bv"]), &log))
                        .map(|_| Value::Empty),
                    "set_builtins" => c.set_builtin_functions_disabled(call["d"].as_bool().unwrap_or(false)).map(|_| Value::Empty),
                    other => Err(EvalexprError::CustomMessage(format!("harness: unknown op {other}"))),
                }
            });
            if op == "set_function" && !probe.contains(&n) {
                probe.push(n.clone());
            }
            let shown = match op {
                "eval" => format!("[{s}] eval {:?}", call["toks"].as_array().map(|a| a.iter().map(text_of).collect::<Vec<_>>().join(" ")).unwrap_or_default()),
                "set_value" => format!("[{s}] set_value({n}, {:?})", dec_value(&call["v"])),
                _ => format!("[{s}] {op}({n})"),
            };
            trail.push(shown);
            let r = match r {
                Ok(r) => r,
                Err(p) => {
                    self.fail("panic", format!("history {trail:?} panicked at {p}"), case, json!({"panic": p}));
                    return;
                },
            };
            let pat = &step["obs"];
            // the matching expected-type error of a rejected assignment is compared exactly (variant and payload);
            // any other error by class, so that a refactoring inside an error class raises no alarm
            let type_safety = matches!(pat["e"]["e"].as_str().unwrap_or(""), "ExpectedString" | "ExpectedInt" | "ExpectedFloat"
                | "ExpectedBoolean" | "ExpectedTuple" | "ExpectedEmpty")
                && (op == "set_value" || (op == "eval" && call["toks"].as_array().and_then(|t| t.get(1)).map(text_of).as_deref() == Some("=")));
            let ok = if pat["p"] == "err" && pat["e"]["e"] == "None" { none } else { !none && matches(pat, &r, type_safety) };
            if !ok {
                self.fail(
                    &check,
                    format!("history {trail:?}: step {} returned {}, the specification says {}", i + 1,
                            enc_obs(&r)["text"].as_str().unwrap_or(""), brief_patterns(&[pat.clone()])),
                    case,
                    enc_obs(&r),
                );
                return;
            }
        }
        // projection of both slots after the last step
        let post = case["post"].as_array().cloned().unwrap_or_default();
        let mut shown = Vec::new();
        for (s, want) in post.iter().enumerate() {
            let absent = want["kind"] == "Absent";
            match (&slots[s], absent) {
                (None, true) => {},
                (Some(c), false) => match guard(|| project_hashmap(c, &probe, &log)) {
                    Ok(Ok(got)) => {
                        let w = project_spec(want);
                        // the specification lists the functions it knows; the probe list may be longer
                        if !same_projection(&got, &w) {
                            self.fail(&check, format!("history {trail:?}: slot {s} is {got}, the specification says {w}"), case,
                                      json!({"slot": s, "post": got}));
                            return;
                        }
                        shown.push(got);
                    },
                    Ok(Err(e)) => {
                        self.fail(&check, format!("history {trail:?}: slot {s}: inconsistent listing: {e}"), case, json!(null));
                        return;
                    },
                    Err(p) => {
                        self.fail("panic", format!("history {trail:?}: projection panicked at {p}"), case, json!({"panic": p}));
                        return;
                    },
                },
                _ => {
                    self.fail(&check, format!("history {trail:?}: slot {s} presence differs"), case, json!(null));
                    return;
                },
            }
        }
        self.sample("history", json!({"steps": trail, "slots_after": shown}));
    }

    /// C14: the ten identifier iterators against the occurrence list of the specification.
    fn check_occurrences(&mut self, case: &J, src: &str, tree: &Tree) {
        let occ: Vec<(String, String)> = case["occ"]
            .as_array()
            .map(|a| a.iter().map(|o| (text_of(&o["n"]), o["c"].as_str().unwrap_or("").to_string())).collect())
            .unwrap_or_default();
        if !occ.is_empty() {
            self.distinct("wf_with_identifiers", case);
        }
        let want = |classes: &[&str]| -> Vec<String> {
            occ.iter().filter(|(_, c)| classes.contains(&c.as_str())).map(|(n, _)| n.clone()).collect()
        };
        let r = guard(|| {
            let mut t = tree.clone();
            let got: Vec<(&str, Vec<String>, Vec<String>)> = vec![
                (
                    "iter_identifiers",
                    tree.iter_identifiers().map(String::from).collect(),
                    t.iter_identifiers_mut().map(|s| s.clone()).collect(),
                ),
                (
                    "iter_variable_identifiers",
                    tree.iter_variable_identifiers().map(String::from).collect(),
                    t.iter_variable_identifiers_mut().map(|s| s.clone()).collect(),
                ),
                (
                    "iter_read_variable_identifiers",
                    tree.iter_read_variable_identifiers().map(String::from).collect(),
                    t.iter_read_variable_identifiers_mut().map(|s| s.clone()).collect(),
                ),
                (
                    "iter_write_variable_identifiers",
                    tree.iter_write_variable_identifiers().map(String::from).collect(),
                    t.iter_write_variable_identifiers_mut().map(|s| s.clone()).collect(),
                ),
                (
                    "iter_function_identifiers",
                    tree.iter_function_identifiers().map(String::from).collect(),
                    t.iter_function_identifiers_mut().map(|s| s.clone()).collect(),
                ),
            ];
            got.into_iter().map(|(n, a, b)| (n.to_string(), a, b)).collect::<Vec<_>>()
        });
        let got = match r {
            Ok(g) => g,
            Err(p) => {
                self.fail("panic", format!("identifier iterators of {src:?} panicked at {p}"), case, json!({"panic": p}));
                return;
            },
        };
        let wants = [
            want(&["Read", "Write", "Call"]),
            want(&["Read", "Write"]),
            want(&["Read"]),
            want(&["Write"]),
            want(&["Call"]),
        ];
        // consequence (C14): consistently renaming identifiers through the mutable iterators and in the context does
        // not change the result (names inside unknown-identifier errors are renamed alike)
        if !occ.is_empty() {
            match guard(|| rename_invariance(tree)) {
                Ok(Ok(())) => self.distinct("renamed", case),
                Ok(Err(d)) => self.fail("occ", format!("{src:?}: {d}"), case, json!(null)),
                Err(p) => self.fail("panic", format!("{src:?}: renaming panicked at {p}"), case, json!({"panic": p})),
            }
        }
        // the same sequence however the iterator is consumed: element by element, `next` then a fold-based adaptor
        // (`for_each`), `count` / `last`, `nth` (an iterator may override these)
        let styles = guard(|| {
            fn consume<'a, I: Iterator<Item = &'a str>>(mk: &dyn Fn() -> I) -> Vec<(&'static str, Vec<String>)> {
                let all: Vec<String> = mk().map(String::from).collect();
                let mut by_next = Vec::new();
                let mut it = mk();
                while let Some(x) = it.next() {
                    by_next.push(x.to_string());
                }
                let mut next_then_fold = Vec::new();
                let mut it = mk();
                if let Some(x) = it.next() {
                    next_then_fold.push(x.to_string());
                }
                it.for_each(|x| next_then_fold.push(x.to_string()));
                let mut two_then_fold = Vec::new();
                let mut it = mk();
                for _ in 0..2 {
                    if let Some(x) = it.next() {
                        two_then_fold.push(x.to_string());
                    }
                }
                two_then_fold.extend(it.fold(Vec::new(), |mut acc, x| {
                    acc.push(x.to_string());
                    acc
                }));
                let n = mk().count();
                let mut count_last: Vec<String> = all.iter().take(n.saturating_sub(1)).cloned().collect();
                if n != all.len() {
                    count_last.push(format!("<count {n}>"));
                }
                if let Some(l) = mk().last() {
                    count_last.push(l.to_string());
                }
                let by_nth: Vec<String> = (0..all.len() + 1).filter_map(|k| mk().nth(k).map(String::from)).collect();
                vec![("collect", all), ("next", by_next), ("next + for_each", next_then_fold), ("next, next + fold", two_then_fold),
                     ("count / last", count_last), ("nth", by_nth)]
            }
            vec![
                ("iter_identifiers", consume(&|| tree.iter_identifiers())),
                ("iter_variable_identifiers", consume(&|| tree.iter_variable_identifiers())),
                ("iter_read_variable_identifiers", consume(&|| tree.iter_read_variable_identifiers())),
                ("iter_write_variable_identifiers", consume(&|| tree.iter_write_variable_identifiers())),
                ("iter_function_identifiers", consume(&|| tree.iter_function_identifiers())),
            ]
        });
        match styles {
            Ok(all) => {
                for (name, results) in all {
                    let reference = results[0].1.clone();
                    for (style, r) in &results[1..] {
                        if *r != reference {
                            self.fail("occ", format!("{src:?}: {name} consumed by {style} yields {r:?}, collected {reference:?}"), case,
                                      json!({"iter": name, "style": style, "got": r}));
                        }
                    }
                }
            },
            Err(p) => self.fail("panic", format!("identifier iterators of {src:?} panicked at {p}"), case, json!({"panic": p})),
        }
        for ((name, imm, mutv), w) in got.iter().zip(wants.iter()) {
            if imm != w {
                self.fail("occ", format!("{src:?}: {name} = {imm:?}, specification {w:?}"), case, json!({"iter": name, "got": imm}));
            }
            if mutv != w {
                self.fail(
                    "occ",
                    format!("{src:?}: {name}_mut = {mutv:?}, specification {w:?}"),
                    case,
                    json!({"iter": format!("{name}_mut"), "got": mutv}),
                );
            }
        }
    }
}

/// Does the observation match an outcome pattern of the specification (Api.tla)?
pub fn matches(pat: &J, obs: &Result<V, E>, exact: bool) -> bool {
    match pat["p"].as_str().unwrap_or("") {
        "any" => true,
        "anyerr" => obs.is_err(),
        "val" => match (obs, dec_value(&pat["v"])) {
            (Ok(v), Some(w)) => same_value(v, &w),
            _ => false,
        },
        "err" => match obs {
            Err(e) => {
                let got = enc_error(e);
                let want = &pat["e"];
                let (gn, wn) = (got["e"].as_str().unwrap_or(""), want["e"].as_str().unwrap_or(""));
                if !exact {
                    return err_class(gn) == err_class(wn);
                }
                let vals = |k: &str| match (dec_value(&got[k]), dec_value(&want[k])) {
                    (Some(a), Some(b)) => same_value(&a, &b),
                    _ => false,
                };
                let loose_text = matches!(wn, "WrongTypeCombination" | "WrongFunctionArgumentAmount" | "UnmatchedPartialToken");
                gn == wn
                    && vals("a")
                    && vals("b")
                    && (loose_text || got["n"] == want["n"])
                    && got["x"] == want["x"]
                    && got["y"] == want["y"]
                    && got["ts"] == want["ts"]
            },
            _ => false,
        },
        _ => false,
    }
}

pub fn brief_patterns(pats: &[J]) -> String {
    pats.iter()
        .map(|p| match p["p"].as_str().unwrap_or("") {
            "val" => dec_value(&p["v"]).map(|v| format!("{v:?}")).unwrap_or_default(),
            "err" => format!("Err({})", p["e"]["e"].as_str().unwrap_or("")),
            other => other.to_string(),
        })
        .collect::<Vec<_>>()
        .join(" | ")
}

pub fn enc_obs(obs: &Result<V, E>) -> J {
    match obs {
        Ok(v) => json!({"ok": true, "v": enc_value(v), "text": format!("{v:?}")}),
        Err(e) => json!({"ok": false, "e": enc_error(e), "text": format!("{e:?}")}),
    }
}

/// Evaluates `tree` in the populated context, and the tree renamed through the mutable iterators (every identifier n
/// becomes n_r) in the correspondingly renamed context; the outcomes must be equal up to the renaming.
pub fn rename_invariance(tree: &Tree) -> Result<(), String> {
    let r = |n: &str| format!("{n}_r");
    let mut renamed = tree.clone();
    for id in renamed.iter_variable_identifiers_mut() {
        *id = r(id);
    }
    for id in renamed.iter_function_identifiers_mut() {
        *id = r(id);
    }
    let mut c1 = populated();
    let mut c2 = HashMapContext::<DefaultNumericTypes>::new();
    c2.set_value(r("x"), Value::Int(1)).unwrap();
    c2.set_value(r("y"), Value::Int(2)).unwrap();
    c2.set_function(r("f"), Function::new(|a| Ok(a.clone()))).unwrap();
    let a = tree.eval_with_context_mut(&mut c1);
    let b = renamed.eval_with_context_mut(&mut c2);
    let a_renamed = match a {
        Err(EvalexprError::VariableIdentifierNotFound(n)) => Err(EvalexprError::VariableIdentifierNotFound(r(&n))),
        // builtin names are not renamed by the language: a renamed builtin is unknown, which is not a counterexample
        Err(EvalexprError::FunctionIdentifierNotFound(n)) => Err(EvalexprError::FunctionIdentifierNotFound(r(&n))),
        other => other,
    };
    let uses_builtin = tree.iter_function_identifiers().any(|n| n != "f");
    if uses_builtin {
        return Ok(());
    }
    if !same_result(&a_renamed, &b) {
        return Err(format!("renaming changes the result: {a_renamed:?} became {b:?}"));
    }
    let mut v1: Vec<(String, V)> = c1.iter_variables().map(|(n, v)| (r(&n), v)).collect();
    let mut v2: Vec<(String, V)> = c2.iter_variables().collect();
    v1.sort_by(|p, q| p.0.cmp(&q.0));
    v2.sort_by(|p, q| p.0.cmp(&q.0));
    if v1.len() != v2.len() || !v1.iter().zip(&v2).all(|(p, q)| p.0 == q.0 && same_value(&p.1, &q.1)) {
        return Err(format!("renaming changes the context afterwards: {v1:?} vs {v2:?}"));
    }
    Ok(())
}

fn same_result(a: &Result<V, E>, b: &Result<V, E>) -> bool {
    match (a, b) {
        (Ok(x), Ok(y)) => same_value(x, y),
        (Err(x), Err(y)) => x == y || format!("{x:?}") == format!("{y:?}"),
        _ => false,
    }
}

/// C12: `build_operator_tree(s)` fails iff every string-level entry point returns that same error; if it
/// succeeds, evaluating the tree gives the same outcome as evaluating the string, for every entry point.
pub fn entry_consistency(src: &str, built: &Result<Tree, E>) -> Result<(), String> {
    for kind in KINDS {
        for mode in MODES {
            let mut c1 = populated();
            let s = call_string(kind, mode, src, &mut c1);
            match built {
                Err(e) => {
                    if s.as_ref().err() != Some(e) {
                        return Err(format!("build_operator_tree fails with {e:?} but eval_{}_{} returns {s:?}", kind.name(), mode.name()));
                    }
                },
                Ok(t) => {
                    let mut c2 = populated();
                    let r = call_tree(kind, mode, t, &mut c2);
                    if !same_result(&s, &r) {
                        return Err(format!("eval_{}_{}: string level {s:?}, tree level {r:?}", kind.name(), mode.name()));
                    }
                },
            }
        }
    }
    Ok(())
}

/// C01: calls every public evaluation entry point (string and tree level, typed and untyped,
/// fresh / shared / mutable context, the three provided context kinds) and every formatter on the
/// results.  Returns the first panic, if any.
pub fn exercise_everything(src: &str, tree: Option<&Tree>) -> Result<(), String> {
    let fmt_result = |r: &Result<V, E>| match r {
        Ok(v) => {
            let _ = format!("{v} {v:?}");
        },
        Err(e) => {
            let _ = format!("{e} {e:?}");
        },
    };
    guard(|| {
        let _ = build_operator_tree::<DefaultNumericTypes>(src).map(|t| format!("{t} {t:?}"));
    })
    .map_err(|p| format!("build_operator_tree / Display / Debug panicked at {p}"))?;
    for kind in KINDS {
        for mode in MODES {
            for populated_ctx in [false, true] {
                guard(|| {
                    let mut c = if populated_ctx { populated() } else { HashMapContext::new() };
                    let r = call_string(kind, mode, src, &mut c);
                    fmt_result(&r);
                    if let Some(t) = tree {
                        let mut c = if populated_ctx { populated() } else { HashMapContext::new() };
                        let r = call_tree(kind, mode, t, &mut c);
                        fmt_result(&r);
                    }
                })
                .map_err(|p| format!("eval_{}_{} panicked at {p}", kind.name(), mode.name()))?;
            }
        }
        guard(|| {
            let e = EmptyContext::<DefaultNumericTypes>::default();
            let b = EmptyContextWithBuiltinFunctions::<DefaultNumericTypes>::default();
            fmt_result(&call_string_imm(kind, src, &e));
            fmt_result(&call_string_imm(kind, src, &b));
            if let Some(t) = tree {
                fmt_result(&call_tree_imm(kind, t, &e));
                fmt_result(&call_tree_imm(kind, t, &b));
            }
        })
        .map_err(|p| format!("eval_{} on an empty context panicked at {p}", kind.name()))?;
    }
    Ok(())
}
