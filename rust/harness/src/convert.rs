//! Code -> spec, second source: executions of the repository's OWN test suite.
//!
//! /repo, built with `--cfg evalexpr_verif`, appends one raw JSON line per top-level
//! precompilation / evaluation to the file named by EVALEXPR_VERIF_TRACE (src/verif.rs there).
//! `harness convert` turns those lines into the events `Trace_Api.tla` validates:
//!
//!   build     (src, res, tree)                          as recorded by `build_operator_tree`
//!   ctx       (slot 0, the context before the call; user functions get the behaviour `oracle`)
//!   evaltree  (slot 0, tree, mode, res, post, log)      log: user-function calls with their RESULTS -
//!                                                       the specification replays them as an oracle and
//!                                                       checks their order, arguments and number
//!
//! and collects the environment primitives the specification will ask for: every numeric operand
//! the real evaluation applied an operator to (pairs for the binary float primitives), every
//! string, every float-looking word of a source.  Lines of other numeric types, and evaluations
//! in user-defined contexts (no projection), are counted and skipped.
use crate::enc::*;
use evalexpr::Value;
use serde_json::{json, Value as J};
use std::collections::BTreeSet;
use std::io::{BufRead, Write};

const DEFAULT_NT: &str = "evalexpr::value::numeric_types::default_numeric_types::DefaultNumericTypes";

fn raw_value(j: &J) -> Option<V> {
    Some(match j.get("t")?.as_str()? {
        "Int" => Value::Int(from_cps(j.get("d")?).parse::<i64>().ok()?),
        "Float" => Value::Float(from_cps(j.get("d")?).parse::<f64>().ok()?),
        "String" => Value::String(from_cps(j.get("c")?)),
        "Boolean" => Value::Boolean(j.get("b")?.as_bool()?),
        "Tuple" => {
            let mut out = Vec::new();
            for e in j.get("k")?.as_array()? {
                out.push(raw_value(e)?);
            }
            Value::Tuple(out)
        },
        "Empty" => Value::Empty,
        _ => return None,
    })
}

fn spec_op(o: &str) -> &str {
    match o {
        "RootNode" => "Root",
        "VariableIdentifierWrite" => "Write",
        "VariableIdentifierRead" => "Read",
        "FunctionIdentifier" => "Call",
        other => other,
    }
}

/// Raw tree -> the normal form of Grammar.tla (see `enc::normalise`); second component: arity-deficient?
fn raw_tree(j: &J) -> Option<(NTree, bool)> {
    let o = spec_op(j.get("o")?.as_str()?).to_string();
    let kids = j.get("k")?.as_array()?;
    let mut k = Vec::new();
    let mut deficient = false;
    for c in kids {
        let (t, d) = raw_tree(c)?;
        deficient |= d;
        k.push(t);
    }
    if o == "Root" {
        match k.len() {
            0 => return Some((NTree { o: "Empty".into(), n: String::new(), v: None, k: vec![] }, false)),
            1 => return Some((k.pop().unwrap(), deficient)),
            _ => deficient = true,
        }
    }
    match (o.as_str(), arity(&o)) {
        ("Chain", _) => deficient |= k.is_empty(),
        (_, Some(n)) => deficient |= k.len() != n,
        _ => {},
    }
    let v = if o == "Const" { Some(raw_value(j.get("v")?)?) } else { None };
    let n = match j.get("n") {
        Some(n) if o != "Const" => from_cps(n),
        _ => String::new(),
    };
    Some((NTree { o, n, v, k }, deficient))
}

fn variant_of(debug: &str) -> String {
    debug.split(|c: char| !c.is_alphanumeric()).next().unwrap_or("").to_string()
}

fn raw_result(j: &J, value: impl FnOnce(&J) -> Option<J>) -> Option<J> {
    let empty = enc_value(&Value::Empty);
    Some(match j.get("p")?.as_str()? {
        "val" => json!({"p": "val", "v": value(j.get("v")?)?, "e": no_err()}),
        "err" => {
            let mut e = no_err();
            e["e"] = json!(variant_of(&from_cps(j.get("d")?)));
            json!({"p": "err", "v": empty, "e": e})
        },
        _ => return None,
    })
}

#[derive(Default)]
struct Pools {
    floats: BTreeSet<u64>,
    ints: BTreeSet<i64>,
    strings: BTreeSet<String>,
    words: BTreeSet<String>,
    pairs: BTreeSet<(u64, u64)>,
}

impl Pools {
    fn numbers(v: &V, out: &mut Vec<f64>, p: &mut Pools) {
        match v {
            Value::Int(i) => {
                p.ints.insert(*i);
                out.push(*i as f64);
            },
            Value::Float(f) => out.push(*f),
            Value::String(s) => {
                p.strings.insert(s.clone());
            },
            Value::Tuple(k) => k.iter().for_each(|x| Pools::numbers(x, out, p)),
            _ => {},
        }
    }
    /// One operator application: every number is a unary operand, every ordered pair a binary one.
    fn application(&mut self, args: &[V]) {
        let mut nums = Vec::new();
        for a in args {
            Pools::numbers(a, &mut nums, self);
        }
        // the hooks print floats as text, which loses the sign bit of a NaN (0.0 / 0.0 is the NEGATIVE quiet NaN on x86):
        // the specification, computing with the tabulated hardware results, meets either
        if nums.iter().any(|x| x.is_nan()) {
            nums.retain(|x| !x.is_nan());
            nums.push(f64::from_bits(0x7ff8_0000_0000_0000));
            nums.push(f64::from_bits(0xfff8_0000_0000_0000));
        }
        for a in &nums {
            self.floats.insert(a.to_bits());
        }
        if nums.len() <= 8 {
            for a in &nums {
                for b in &nums {
                    self.pairs.insert((a.to_bits(), b.to_bits()));
                }
            }
        }
    }
    fn value(&mut self, v: &V) {
        let mut nums = Vec::new();
        Pools::numbers(v, &mut nums, self);
        for a in &nums {
            self.floats.insert(a.to_bits());
            if a.is_nan() {
                self.floats.insert(0x7ff8_0000_0000_0000);
                self.floats.insert(0xfff8_0000_0000_0000);
            }
        }
    }
}

fn snapshot(j: &J, oracle: bool, pools: &mut Pools) -> Option<J> {
    let mut vars = Vec::new();
    for v in j.get("vars")?.as_array()? {
        let val = raw_value(v.get("v")?)?;
        pools.value(&val);
        vars.push(json!({"n": cps(&from_cps(v.get("n")?)), "v": enc_value(&val)}));
    }
    let funcs: Vec<J> = j
        .get("funcs")?
        .as_array()?
        .iter()
        .map(|n| if oracle { json!({"n": n, "b": "oracle", "v": enc_value(&Value::Empty)}) } else { n.clone() })
        .collect();
    Some(json!({"kind": j.get("kind")?, "nb": j.get("nb")?, "vars": vars, "funcs": funcs}))
}

/// Events beyond these sizes are skipped (counted): TLC evaluates the normative recogniser and evaluator by recursion over
/// sequences, which is quadratic in the length of the input - fine for the expressions tests usually contain.
const MAX_SOURCE_CHARS: usize = 400;
const MAX_TREE_NODES: usize = 160;

fn tree_size(t: &NTree) -> usize {
    1 + t.k.iter().map(tree_size).sum::<usize>()
}

pub struct Stats {
    pub skipped_large: u64,
    pub builds: u64,
    pub evals: u64,
    pub skipped_numeric: u64,
    pub skipped_context: u64,
    pub bad: u64,
}

pub fn convert(input: &str, output: &str, primreq: &str, max_events: usize) -> Stats {
    let mut st = Stats { skipped_large: 0, builds: 0, evals: 0, skipped_numeric: 0, skipped_context: 0, bad: 0 };
    let mut pools = Pools::default();
    let mut out = std::io::BufWriter::new(std::fs::File::create(output).expect("trace file"));
    let mut seen: BTreeSet<String> = BTreeSet::new();
    let file = std::io::BufReader::new(std::fs::File::open(input).expect("raw trace"));
    for line in file.lines() {
        let line = match line {
            Ok(l) => l,
            Err(_) => {
                st.bad += 1;
                continue;
            },
        };
        if line.trim().is_empty() || !seen.insert(line.clone()) {
            continue; // the same call with the same observation (doctests and tests repeat many)
        }
        if (st.builds + st.evals) as usize >= max_events {
            break;
        }
        let j: J = match serde_json::from_str(&line) {
            Ok(j) => j,
            Err(_) => {
                st.bad += 1;
                continue;
            },
        };
        if j["nt"].as_str() != Some(DEFAULT_NT) {
            st.skipped_numeric += 1;
            continue;
        }
        let done = match j["ev"].as_str() {
            Some("build") => (|| {
                let src = from_cps(j.get("src")?);
                if src.chars().count() > MAX_SOURCE_CHARS {
                    st.skipped_large += 1;
                    return Some(());
                }
                for w in src.split(|c: char| c.is_whitespace() || "*/%^(),;=!<>&|\"".contains(c)) {
                    for part in crate::record::candidate_words(w) {
                        if part.chars().any(|c| c.is_ascii_digit()) && part.chars().all(|c| c.is_ascii_digit() || ".eE+-".contains(c)) {
                            pools.words.insert(part);
                        }
                    }
                }
                let mut ev = json!({"ev": "build", "src": cps(&src), "deficient": false});
                let mut deficient = false;
                let res = raw_result(j.get("res")?, |t| {
                    let (t, d) = raw_tree(t)?;
                    deficient = d;
                    Some(enc_tree(&t))
                })?;
                if res["p"] == "val" {
                    ev["tree"] = res["v"].clone();
                    ev["res"] = json!({"p": "val", "v": enc_value(&Value::Empty), "e": no_err()});
                } else {
                    ev["res"] = res;
                }
                ev["deficient"] = json!(deficient);
                writeln!(out, "{}", ev).ok()?;
                st.builds += 1;
                Some(())
            })(),
            Some("eval") => (|| {
                if j.get("pre")?.is_null() || j.get("post")?.is_null() {
                    st.skipped_context += 1;
                    return Some(());
                }
                let (tree, deficient) = raw_tree(j.get("tree")?)?;
                if tree_size(&tree) > MAX_TREE_NODES {
                    st.skipped_large += 1;
                    return Some(());
                }
                let pre = snapshot(j.get("pre")?, true, &mut pools)?;
                let post = snapshot(j.get("post")?, false, &mut pools)?;
                let res = raw_result(j.get("res")?, |v| {
                    let v = raw_value(v)?;
                    pools.value(&v);
                    Some(enc_value(&v))
                })?;
                let mut log = Vec::new();
                for c in j.get("log")?.as_array()? {
                    let a = raw_value(c.get("a")?)?;
                    pools.value(&a);
                    let r = raw_result(c.get("r")?, |v| {
                        let v = raw_value(v)?;
                        pools.value(&v);
                        Some(enc_value(&v))
                    })?;
                    log.push(json!({"n": cps(&from_cps(c.get("n")?)), "a": enc_value(&a), "r": r}));
                }
                for o in j.get("ops")?.as_array()? {
                    let mut args = Vec::new();
                    for a in o.get("a")?.as_array()? {
                        args.push(raw_value(a)?);
                    }
                    pools.application(&args);
                }
                writeln!(out, "{}", json!({"ev": "ctx", "slot": 0, "ctx": pre})).ok()?;
                writeln!(
                    out,
                    "{}",
                    json!({"ev": "evaltree", "slot": 0, "mode": j.get("mode")?, "tree": enc_tree(&tree), "deficient": deficient,
                           "res": res, "post": post, "log": log})
                )
                .ok()?;
                st.evals += 1;
                Some(())
            })(),
            _ => None,
        };
        if done.is_none() {
            st.bad += 1;
        }
    }
    out.flush().expect("flush");
    let req = json!({
        "floats": pools.floats.iter().map(|b| float_words(f64::from_bits(*b))).collect::<Vec<_>>(),
        "ints": pools.ints.iter().map(|i| int_limbs(*i)).collect::<Vec<_>>(),
        "strings": pools.strings.iter().map(|s| cps(s)).collect::<Vec<_>>(),
        "words": pools.words.iter().map(|s| cps(s)).collect::<Vec<_>>(),
        "pairs": pools.pairs.iter().map(|(a, b)| json!([float_words(f64::from_bits(*a)), float_words(f64::from_bits(*b))])).collect::<Vec<_>>(),
    });
    std::fs::write(primreq, req.to_string()).expect("primreq");
    st
}
