//! The shared JSON encoding (DESIGN.md section 3.7): values, errors, trees and contexts
//! as they cross the boundary between the TLA+ specification and the real crate.
//!
//! * integers: `[sign, l1, l2, l3, l4, l5]`, magnitude in base 2^15, least significant limb first
//! * floats: `[w3, w2, w1, w0]`, the IEEE-754 bits as 16-bit words, most significant first
//! * strings and identifiers: arrays of Unicode code points
//!
//! Values emitted by this harness are *uniform* records (all six fields present), because TLC
//! compares records of different shape with an error.  Values read from TLC may be compact.

use evalexpr::*;
use serde_json::{json, Map, Value as J};

pub type V = Value<DefaultNumericTypes>;
pub type E = EvalexprError<DefaultNumericTypes>;
pub type Tree = Node<DefaultNumericTypes>;

pub fn cps(s: &str) -> J {
    J::Array(s.chars().map(|c| json!(c as u32)).collect())
}

pub fn from_cps(j: &J) -> String {
    j.as_array()
        .map(|a| {
            a.iter()
                .map(|c| char::from_u32(c.as_u64().unwrap_or(0xFFFD) as u32).unwrap_or('\u{FFFD}'))
                .collect()
        })
        .unwrap_or_default()
}

pub fn int_limbs(i: i64) -> J {
    let sign = if i < 0 { 1 } else { 0 };
    let mut m = i.unsigned_abs();
    let mut out = vec![json!(sign)];
    for _ in 0..5 {
        out.push(json!(m & 0x7fff));
        m >>= 15;
    }
    J::Array(out)
}

/// Returns None if the limbs denote a number outside the i64 range.
pub fn limbs_int(j: &J) -> Option<i64> {
    let a = j.as_array()?;
    if a.len() != 6 {
        return None;
    }
    let sign = a[0].as_u64()?;
    let mut m: u128 = 0;
    for k in (1..6).rev() {
        m = (m << 15) | (a[k].as_u64()? as u128);
    }
    if sign == 0 {
        if m <= i64::MAX as u128 {
            Some(m as i64)
        } else {
            None
        }
    } else if m <= (i64::MAX as u128) + 1 {
        Some((m as i128).wrapping_neg() as i64)
    } else {
        None
    }
}

pub fn float_words(f: f64) -> J {
    let b = f.to_bits();
    json!([(b >> 48) & 0xffff, (b >> 32) & 0xffff, (b >> 16) & 0xffff, b & 0xffff])
}

pub fn words_float(j: &J) -> Option<f64> {
    let a = j.as_array()?;
    if a.len() != 4 {
        return None;
    }
    let mut b: u64 = 0;
    for w in a {
        b = (b << 16) | (w.as_u64()? & 0xffff);
    }
    Some(f64::from_bits(b))
}

pub fn enc_value(v: &V) -> J {
    let (t, i, f, s, b, k) = match v {
        Value::Int(i) => ("Int", int_limbs(*i), json!([]), json!([]), false, json!([])),
        Value::Float(f) => ("Float", json!([]), float_words(*f), json!([]), false, json!([])),
        Value::String(s) => ("String", json!([]), json!([]), cps(s), false, json!([])),
        Value::Boolean(b) => ("Boolean", json!([]), json!([]), json!([]), *b, json!([])),
        Value::Tuple(k) => (
            "Tuple",
            json!([]),
            json!([]),
            json!([]),
            false,
            J::Array(k.iter().map(enc_value).collect()),
        ),
        Value::Empty => ("Empty", json!([]), json!([]), json!([]), false, json!([])),
    };
    json!({"t": t, "i": i, "f": f, "s": s, "b": b, "k": k})
}

pub fn dec_value(j: &J) -> Option<V> {
    let t = j.get("t")?.as_str()?;
    Some(match t {
        "Int" | "I" => Value::Int(limbs_int(j.get("i")?)?),
        "Float" | "F" => Value::Float(words_float(j.get("f")?)?),
        "String" | "S" => Value::String(from_cps(j.get("s")?)),
        "Boolean" | "B" => Value::Boolean(j.get("b")?.as_bool()?),
        "Tuple" | "T" => {
            let mut out = Vec::new();
            for e in j.get("k")?.as_array()? {
                out.push(dec_value(e)?);
            }
            Value::Tuple(out)
        },
        "Empty" | "E" => Value::Empty,
        _ => return None,
    })
}

/// Bit-exact equality, except that all NaNs form one class (DESIGN.md section 4).
pub fn same_value(a: &V, b: &V) -> bool {
    match (a, b) {
        (Value::Float(x), Value::Float(y)) => x.to_bits() == y.to_bits() || (f64::is_nan(*x) && f64::is_nan(*y)),
        (Value::Tuple(x), Value::Tuple(y)) => x.len() == y.len() && x.iter().zip(y).all(|(p, q)| same_value(p, q)),
        (Value::Int(x), Value::Int(y)) => x == y,
        (Value::String(x), Value::String(y)) => x == y,
        (Value::Boolean(x), Value::Boolean(y)) => x == y,
        (Value::Empty, Value::Empty) => true,
        _ => false,
    }
}

fn type_name(t: &ValueType) -> &'static str {
    match t {
        ValueType::String => "String",
        ValueType::Float => "Float",
        ValueType::Int => "Int",
        ValueType::Boolean => "Boolean",
        ValueType::Tuple => "Tuple",
        ValueType::Empty => "Empty",
    }
}

fn clamp(n: usize) -> J {
    if n > 0x7fff_ffff {
        json!(-1)
    } else {
        json!(n)
    }
}

/// Encodes an error as the uniform record of Errors.tla.
pub fn enc_error(e: &E) -> J {
    use EvalexprError::*;
    let empty = enc_value(&Value::Empty);
    let mut m = Map::new();
    let mut set = |name: &str, a: Option<&V>, b: Option<&V>, n: Option<&str>, x: J, y: J, ts: Vec<&'static str>| {
        m.insert("e".into(), json!(name));
        m.insert("a".into(), a.map(enc_value).unwrap_or_else(|| empty.clone()));
        m.insert("b".into(), b.map(enc_value).unwrap_or_else(|| empty.clone()));
        m.insert("n".into(), n.map(cps).unwrap_or_else(|| json!([])));
        m.insert("x".into(), x);
        m.insert("y".into(), y);
        m.insert("ts".into(), json!(ts));
    };
    let z = || json!(0);
    match e {
        WrongOperatorArgumentAmount { expected, actual } => {
            set("WrongOperatorArgumentAmount", None, None, None, clamp(*expected), clamp(*actual), vec![])
        },
        WrongFunctionArgumentAmount { expected, actual } => {
            let n = format!("{}..={}", expected.start(), expected.end());
            set("WrongFunctionArgumentAmount", None, None, Some(&n), clamp(*expected.start()), clamp(*actual), vec![])
        },
        ExpectedString { actual } => set("ExpectedString", Some(actual), None, None, z(), z(), vec![]),
        ExpectedInt { actual } => set("ExpectedInt", Some(actual), None, None, z(), z(), vec![]),
        ExpectedFloat { actual } => set("ExpectedFloat", Some(actual), None, None, z(), z(), vec![]),
        ExpectedNumber { actual } => set("ExpectedNumber", Some(actual), None, None, z(), z(), vec![]),
        ExpectedNumberOrString { actual } => set("ExpectedNumberOrString", Some(actual), None, None, z(), z(), vec![]),
        ExpectedBoolean { actual } => set("ExpectedBoolean", Some(actual), None, None, z(), z(), vec![]),
        ExpectedTuple { actual } => set("ExpectedTuple", Some(actual), None, None, z(), z(), vec![]),
        ExpectedFixedLengthTuple { expected_length, actual } => {
            set("ExpectedFixedLengthTuple", Some(actual), None, None, clamp(*expected_length), z(), vec![])
        },
        ExpectedRangedLengthTuple { expected_length, actual } => set(
            "ExpectedRangedLengthTuple",
            Some(actual),
            None,
            None,
            clamp(*expected_length.start()),
            clamp(*expected_length.end()),
            vec![],
        ),
        ExpectedEmpty { actual } => set("ExpectedEmpty", Some(actual), None, None, z(), z(), vec![]),
        AppendedToLeafNode => set("AppendedToLeafNode", None, None, None, z(), z(), vec![]),
        PrecedenceViolation => set("PrecedenceViolation", None, None, None, z(), z(), vec![]),
        VariableIdentifierNotFound(n) => set("VariableIdentifierNotFound", None, None, Some(n), z(), z(), vec![]),
        FunctionIdentifierNotFound(n) => set("FunctionIdentifierNotFound", None, None, Some(n), z(), z(), vec![]),
        TypeError { expected, actual } => {
            set("TypeError", Some(actual), None, None, z(), z(), expected.iter().map(type_name).collect())
        },
        WrongTypeCombination { operator, actual } => {
            let n = format!("{:?}", operator);
            set("WrongTypeCombination", None, None, Some(&n), z(), z(), actual.iter().map(type_name).collect())
        },
        UnmatchedLBrace => set("UnmatchedLBrace", None, None, None, z(), z(), vec![]),
        UnmatchedRBrace => set("UnmatchedRBrace", None, None, None, z(), z(), vec![]),
        UnmatchedDoubleQuote => set("UnmatchedDoubleQuote", None, None, None, z(), z(), vec![]),
        MissingOperatorOutsideOfBrace => set("MissingOperatorOutsideOfBrace", None, None, None, z(), z(), vec![]),
        UnmatchedPartialToken { first, second } => {
            let n = match second {
                Some(s) => format!("{}{}", first, s),
                None => format!("{}", first),
            };
            set("UnmatchedPartialToken", None, None, Some(&n), z(), z(), vec![])
        },
        AdditionError { augend, addend } => set("AdditionError", Some(augend), Some(addend), None, z(), z(), vec![]),
        SubtractionError { minuend, subtrahend } => {
            set("SubtractionError", Some(minuend), Some(subtrahend), None, z(), z(), vec![])
        },
        NegationError { argument } => set("NegationError", Some(argument), None, None, z(), z(), vec![]),
        MultiplicationError { multiplicand, multiplier } => {
            set("MultiplicationError", Some(multiplicand), Some(multiplier), None, z(), z(), vec![])
        },
        DivisionError { dividend, divisor } => set("DivisionError", Some(dividend), Some(divisor), None, z(), z(), vec![]),
        ModulationError { dividend, divisor } => set("ModulationError", Some(dividend), Some(divisor), None, z(), z(), vec![]),
        InvalidRegex { regex, .. } => set("InvalidRegex", None, None, Some(regex), z(), z(), vec![]),
        ContextNotMutable => set("ContextNotMutable", None, None, None, z(), z(), vec![]),
        IllegalEscapeSequence(s) => set("IllegalEscapeSequence", None, None, Some(s), z(), z(), vec![]),
        BuiltinFunctionsCannotBeEnabled => set("BuiltinFunctionsCannotBeEnabled", None, None, None, z(), z(), vec![]),
        BuiltinFunctionsCannotBeDisabled => set("BuiltinFunctionsCannotBeDisabled", None, None, None, z(), z(), vec![]),
        OutOfBoundsAccess => set("OutOfBoundsAccess", None, None, None, z(), z(), vec![]),
        IntFromUsize { usize_int } => set("IntFromUsize", None, None, None, clamp(*usize_int), z(), vec![]),
        IntIntoUsize { int } => {
            let v: V = Value::Int(*int);
            set("IntIntoUsize", Some(&v), None, None, z(), z(), vec![])
        },
        RandNotEnabled => set("RandNotEnabled", None, None, None, z(), z(), vec![]),
        CustomMessage(s) => set("CustomMessage", None, None, Some(s), z(), z(), vec![]),
        other => {
            let n = format!("{:?}", other);
            set("Other", None, None, Some(&n), z(), z(), vec![])
        },
    }
    J::Object(m)
}

pub fn err_class(variant: &str) -> &str {
    match variant {
        "AdditionError" | "SubtractionError" | "NegationError" | "MultiplicationError" | "DivisionError"
        | "ModulationError" => "arith",
        "ExpectedString" | "ExpectedInt" | "ExpectedFloat" | "ExpectedNumber" | "ExpectedNumberOrString"
        | "ExpectedBoolean" | "ExpectedTuple" | "ExpectedFixedLengthTuple" | "ExpectedRangedLengthTuple"
        | "ExpectedEmpty" | "TypeError" | "WrongTypeCombination" => "type",
        "WrongOperatorArgumentAmount" | "WrongFunctionArgumentAmount" => "arity",
        v => v,
    }
}

/// Uniform result record `[ok, v, e]` of Errors.tla.
pub fn enc_result(r: &Result<V, E>) -> J {
    match r {
        Ok(v) => json!({"ok": true, "v": enc_value(v), "e": no_err()}),
        Err(e) => json!({"ok": false, "v": enc_value(&Value::Empty), "e": enc_error(e)}),
    }
}

pub fn no_err() -> J {
    json!({"e": "", "a": enc_value(&Value::Empty), "b": enc_value(&Value::Empty), "n": [], "x": 0, "y": 0, "ts": []})
}

fn op_name(o: &Operator<DefaultNumericTypes>) -> &'static str {
    use Operator::*;
    match o {
        RootNode => "Root",
        Add => "Add",
        Sub => "Sub",
        Neg => "Neg",
        Mul => "Mul",
        Div => "Div",
        Mod => "Mod",
        Exp => "Exp",
        Eq => "Eq",
        Neq => "Neq",
        Gt => "Gt",
        Lt => "Lt",
        Geq => "Geq",
        Leq => "Leq",
        And => "And",
        Or => "Or",
        Not => "Not",
        Assign => "Assign",
        AddAssign => "AddAssign",
        SubAssign => "SubAssign",
        MulAssign => "MulAssign",
        DivAssign => "DivAssign",
        ModAssign => "ModAssign",
        ExpAssign => "ExpAssign",
        AndAssign => "AndAssign",
        OrAssign => "OrAssign",
        Tuple => "Tuple",
        Chain => "Chain",
        Const { .. } => "Const",
        VariableIdentifierWrite { .. } => "Write",
        VariableIdentifierRead { .. } => "Read",
        FunctionIdentifier { .. } => "Call",
    }
}

/// A tree in the normal form of Grammar.tla: parenthesis / root wrapper nodes with exactly one
/// child are removed, a wrapper without children is the `Empty` element.
#[derive(Debug, Clone)]
pub struct NTree {
    pub o: String,
    pub n: String,
    pub v: Option<V>,
    pub k: Vec<NTree>,
}

pub fn normalise(t: &Tree) -> NTree {
    let o = t.operator();
    if let Operator::RootNode = o {
        match t.children().len() {
            0 => return NTree { o: "Empty".into(), n: String::new(), v: None, k: vec![] },
            1 => return normalise(&t.children()[0]),
            _ => {},
        }
    }
    let (n, v) = match o {
        Operator::Const { value } => (String::new(), Some(value.clone())),
        Operator::VariableIdentifierWrite { identifier }
        | Operator::VariableIdentifierRead { identifier }
        | Operator::FunctionIdentifier { identifier } => (identifier.clone(), None),
        _ => (String::new(), None),
    };
    NTree { o: op_name(o).into(), n, v, k: t.children().iter().map(normalise).collect() }
}

pub fn dec_tree(j: &J) -> Option<NTree> {
    let o = j.get("o")?.as_str()?.to_string();
    let v = if o == "Const" { Some(dec_value(j.get("v")?)?) } else { None };
    let n = if o == "Const" { String::new() } else { from_cps(j.get("n")?) };
    let mut k = Vec::new();
    for c in j.get("k")?.as_array()? {
        k.push(dec_tree(c)?);
    }
    Some(NTree { o, n, v, k })
}

pub fn enc_tree(t: &NTree) -> J {
    json!({"o": t.o, "n": cps(&t.n), "v": enc_value(t.v.as_ref().unwrap_or(&Value::Empty)),
           "k": J::Array(t.k.iter().map(enc_tree).collect())})
}

pub fn same_tree(a: &NTree, b: &NTree) -> bool {
    a.o == b.o
        && a.n == b.n
        && match (&a.v, &b.v) {
            (Some(x), Some(y)) => same_value(x, y),
            (None, None) => true,
            _ => false,
        }
        && a.k.len() == b.k.len()
        && a.k.iter().zip(&b.k).all(|(x, y)| same_tree(x, y))
}

/// Expected number of children per node kind; None = any.
pub fn arity(o: &str) -> Option<usize> {
    match o {
        "Add" | "Sub" | "Mul" | "Div" | "Mod" | "Exp" | "Eq" | "Neq" | "Gt" | "Lt" | "Geq" | "Leq" | "And" | "Or"
        | "Assign" | "AddAssign" | "SubAssign" | "MulAssign" | "DivAssign" | "ModAssign" | "ExpAssign"
        | "AndAssign" | "OrAssign" => Some(2),
        "Neg" | "Not" | "Call" => Some(1),
        "Const" | "Read" | "Write" => Some(0),
        _ => None,
    }
}

/// True if some node of the real tree has a child count that differs from its operator's arity
/// (such a tree fails every evaluation, because all nodes are evaluated eagerly).
pub fn arity_deficient(t: &Tree) -> bool {
    let want = arity(op_name(t.operator()));
    let bad = match (t.operator(), want) {
        (Operator::RootNode, _) => t.children().len() > 1,
        (Operator::Chain, _) => t.children().is_empty(),
        (_, Some(n)) => t.children().len() != n,
        _ => false,
    };
    bad || t.children().iter().any(arity_deficient)
}
