//! Real contexts built from the specification's context records, with recording user functions,
//! and the projection of a real context back to the specification's record.
use crate::enc::*;
use evalexpr::*;
use serde_json::{json, Value as J};
use std::sync::{Arc, Mutex};

pub type Log = Arc<Mutex<Vec<(String, V)>>>;

/// A context that answers reads and calls from a HashMapContext but keeps the trait's default
/// `set_value` (the way a user-defined storage-less context would).
pub struct ReadOnly {
    pub inner: HashMapContext<DefaultNumericTypes>,
}
impl Context for ReadOnly {
    type NumericTypes = DefaultNumericTypes;
    fn get_value(&self, identifier: &str) -> Option<&V> {
        self.inner.get_value(identifier)
    }
    fn call_function(&self, identifier: &str, argument: &V) -> Result<V, E> {
        self.inner.call_function(identifier, argument)
    }
    fn are_builtin_functions_disabled(&self) -> bool {
        self.inner.are_builtin_functions_disabled()
    }
    fn set_builtin_functions_disabled(&mut self, disabled: bool) -> EvalexprResult<(), DefaultNumericTypes> {
        self.inner.set_builtin_functions_disabled(disabled)
    }
}
impl ContextWithMutableVariables for ReadOnly {}

pub enum Ctx {
    HashMap(HashMapContext<DefaultNumericTypes>),
    Empty(EmptyContext<DefaultNumericTypes>),
    EmptyBuiltin(EmptyContextWithBuiltinFunctions<DefaultNumericTypes>),
    ReadOnly(ReadOnly),
}

/// The behaviours of Eval.tla's user functions; every call is appended to the shared log.
pub fn make_function(name: &str, b: &str, v: Option<V>, log: &Log) -> Function<DefaultNumericTypes> {
    let name = name.to_string();
    let b = b.to_string();
    let log = log.clone();
    Function::new(move |arg| {
        log.lock().unwrap().push((name.clone(), arg.clone()));
        match b.as_str() {
            "id" => Ok(arg.clone()),
            "const" => Ok(v.clone().unwrap_or(Value::Empty)),
            "fail" => Err(EvalexprError::CustomMessage("boom".into())),
            "nf" => Err(EvalexprError::FunctionIdentifierNotFound("zz".into())),
            "inc" => match arg {
                Value::Int(i) => match i64::checked_add(*i, 1) {
                    Some(r) => Ok(Value::Int(r)),
                    None => Err(EvalexprError::AdditionError { augend: arg.clone(), addend: Value::Int(1) }),
                },
                other => Err(EvalexprError::ExpectedInt { actual: other.clone() }),
            },
            _ => Err(EvalexprError::CustomMessage(format!("unknown behaviour {b}"))),
        }
    })
}

fn items(j: &J) -> Vec<&J> {
    j.as_array().map(|a| a.iter().collect()).unwrap_or_default()
}

pub fn fill_hashmap(c: &mut HashMapContext<DefaultNumericTypes>, j: &J, log: &Log) -> Result<(), String> {
    for var in items(&j["vars"]) {
        let n = from_cps(&var["n"]);
        let v = dec_value(&var["v"]).ok_or("bad value")?;
        c.set_value(n, v).map_err(|e| format!("set_value while building the context: {e:?}"))?;
    }
    for f in items(&j["funcs"]) {
        let n = from_cps(&f["n"]);
        let b = f["b"].as_str().unwrap_or("id");
        let v = dec_value(&f["v"]);
        c.set_function(n.clone(), make_function(&n, b, v, log)).map_err(|e| format!("{e:?}"))?;
    }
    c.set_builtin_functions_disabled(j["nb"].as_bool().unwrap_or(false)).map_err(|e| format!("{e:?}"))?;
    Ok(())
}

pub fn build_ctx(j: &J, log: &Log) -> Result<Ctx, String> {
    match j["kind"].as_str().unwrap_or("HashMap") {
        "Empty" => Ok(Ctx::Empty(EmptyContext::default())),
        "EmptyBuiltin" => Ok(Ctx::EmptyBuiltin(EmptyContextWithBuiltinFunctions::default())),
        k => {
            let mut c = HashMapContext::<DefaultNumericTypes>::new();
            fill_hashmap(&mut c, j, log)?;
            if k == "ReadOnly" {
                Ok(Ctx::ReadOnly(ReadOnly { inner: c }))
            } else {
                Ok(Ctx::HashMap(c))
            }
        },
    }
}

/// Projection of a HashMapContext: sorted variable listing (cross-checked against get_value and the
/// name listing), the builtin switch, and which of `probe` resolve as user functions.
pub fn project_hashmap(c: &HashMapContext<DefaultNumericTypes>, probe: &[String], log: &Log) -> Result<J, String> {
    let mut vars: Vec<(String, V)> = c.iter_variables().collect();
    vars.sort_by(|a, b| a.0.cmp(&b.0));
    let mut names: Vec<String> = c.iter_variable_names().collect();
    names.sort();
    if names != vars.iter().map(|(n, _)| n.clone()).collect::<Vec<_>>() {
        return Err(format!("iter_variable_names {names:?} disagrees with iter_variables"));
    }
    for (n, v) in &vars {
        match c.get_value(n) {
            Some(g) if same_value(g, v) => {},
            other => return Err(format!("get_value({n:?}) = {other:?} but the listing says {v:?}")),
        }
    }
    let keep = log.lock().unwrap().len();
    let mut funcs = Vec::new();
    for p in probe {
        match c.call_function(p, &Value::Empty) {
            Err(EvalexprError::FunctionIdentifierNotFound(n)) if &n == p => {},
            _ => funcs.push(p.clone()),
        }
    }
    log.lock().unwrap().truncate(keep);
    funcs.sort();
    Ok(json!({
        "nb": c.are_builtin_functions_disabled(),
        "vars": vars.iter().map(|(n, v)| json!({"n": cps(n), "v": enc_value(v)})).collect::<Vec<_>>(),
        "funcs": funcs.iter().map(|n| cps(n)).collect::<Vec<_>>(),
    }))
}

/// The same projection computed from a specification context record.
pub fn project_spec(j: &J) -> J {
    let mut vars: Vec<(String, V)> = items(&j["vars"])
        .iter()
        .filter_map(|v| Some((from_cps(&v["n"]), dec_value(&v["v"])?)))
        .collect();
    vars.sort_by(|a, b| a.0.cmp(&b.0));
    let mut funcs: Vec<String> = items(&j["funcs"]).iter().map(|f| from_cps(&f["n"])).collect();
    funcs.sort();
    json!({
        "nb": j["nb"].as_bool().unwrap_or(false),
        "vars": vars.iter().map(|(n, v)| json!({"n": cps(n), "v": enc_value(v)})).collect::<Vec<_>>(),
        "funcs": funcs.iter().map(|n| cps(n)).collect::<Vec<_>>(),
    })
}

/// Equality of two projections (values bit-exact, NaNs one class).
pub fn same_projection(a: &J, b: &J) -> bool {
    if a["nb"] != b["nb"] || a["funcs"] != b["funcs"] {
        return false;
    }
    let (x, y) = (items(&a["vars"]), items(&b["vars"]));
    x.len() == y.len()
        && x.iter().zip(y.iter()).all(|(p, q)| {
            p["n"] == q["n"]
                && match (dec_value(&p["v"]), dec_value(&q["v"])) {
                    (Some(u), Some(w)) => same_value(&u, &w),
                    _ => false,
                }
        })
}

pub fn func_names(j: &J) -> Vec<String> {
    let mut v: Vec<String> = items(&j["funcs"]).iter().map(|f| from_cps(&f["n"])).collect();
    v.push("never_defined".into());
    v
}
