#![allow(dead_code)]
//! Conformance harness: binds the TLA+ specification in /verif/spec to the real evalexpr crate.
//!
//! `harness replay`  reads TLC's standard output on stdin.  Every line that is a quoted JSON
//!                   string is a case emitted by a model (`PrintT(ToJson(case))`); it is run against
//!                   the real crate and the observation is compared with what the spec allows.
//!                   All other lines (TLC's own messages) are copied to `--tlc-log`.
//! `harness record`  drives the real crate with seeded random inputs and writes an ndjson trace
//!                   that a `Trace_*.tla` specification validates.
mod convert;
mod ctx;
mod enc;
mod entry;
mod guard;
mod record;
mod replay;

use std::io::{BufRead, Write};

fn arg(args: &[String], name: &str) -> Option<String> {
    args.iter().position(|a| a == name).and_then(|i| args.get(i + 1).cloned())
}

fn main() {
    let args: Vec<String> = std::env::args().collect();
    guard::install_hook();
    match args.get(1).map(|s| s.as_str()) {
        Some("replay") => {
            let out = arg(&args, "--out").expect("--out");
            let tlc_log = arg(&args, "--tlc-log");
            let max_fail: usize = arg(&args, "--max-failures").and_then(|s| s.parse().ok()).unwrap_or(50);
            let mut log = tlc_log.map(|p| std::io::BufWriter::new(std::fs::File::create(p).expect("tlc log")));
            let threads: usize = arg(&args, "--threads").and_then(|s| s.parse().ok()).unwrap_or(6);
            let (tx, rx) = std::sync::mpsc::sync_channel::<Vec<String>>(64);
            let rx = std::sync::Arc::new(std::sync::Mutex::new(rx));
            let mut workers = Vec::new();
            for _ in 0..threads {
                let rx = rx.clone();
                workers.push(
                    std::thread::Builder::new()
                        .stack_size(64 << 20)
                        .spawn(move || {
                            let mut st = replay::State::new(max_fail);
                            loop {
                                let batch = match rx.lock().unwrap().recv() {
                                    Ok(b) => b,
                                    Err(_) => break,
                                };
                                for l in batch {
                                    let case = if l.starts_with('"') {
                                        serde_json::from_str::<String>(&l)
                                            .ok()
                                            .and_then(|inner| serde_json::from_str::<serde_json::Value>(&inner).ok())
                                    } else {
                                        serde_json::from_str::<serde_json::Value>(&l).ok()
                                    };
                                    match case {
                                        Some(case) => st.run_case(&case),
                                        None => st.bad_lines += 1,
                                    }
                                }
                            }
                            st
                        })
                        .expect("spawn"),
                );
            }
            let stdin = std::io::stdin();
            let mut line = String::new();
            let mut lock = stdin.lock();
            let mut batch: Vec<String> = Vec::new();
            loop {
                line.clear();
                match lock.read_line(&mut line) {
                    Ok(0) => break,
                    Ok(_) => {},
                    Err(e) => {
                        eprintln!("harness: read error {e}");
                        break;
                    },
                }
                let l = line.trim_end();
                if l.starts_with("\"{") || l.starts_with('{') {
                    batch.push(l.to_string());
                    if batch.len() >= 128 {
                        tx.send(std::mem::take(&mut batch)).expect("send");
                    }
                } else if let Some(w) = log.as_mut() {
                    let _ = writeln!(w, "{}", l);
                }
            }
            if !batch.is_empty() {
                tx.send(batch).expect("send");
            }
            drop(tx);
            if let Some(w) = log.as_mut() {
                let _ = w.flush();
            }
            let mut st = replay::State::new(max_fail);
            for w in workers {
                match w.join() {
                    Ok(s) => st.merge(s),
                    Err(_) => st.bad_lines += 1,
                }
            }
            let summary = st.summary();
            std::fs::write(&out, serde_json::to_string_pretty(&summary).unwrap()).expect("write summary");
        },
        Some("record") => {
            use rand::SeedableRng;
            let gen = arg(&args, "--gen").expect("--gen");
            let seed: u64 = arg(&args, "--seed").and_then(|s| s.parse().ok()).unwrap_or(1);
            let n: usize = arg(&args, "--n").and_then(|s| s.parse().ok()).unwrap_or(1000);
            let out = arg(&args, "--out").expect("--out");
            let primreq = arg(&args, "--primreq").unwrap_or_else(|| format!("{out}.primreq.json"));
            let threads_arg: usize = arg(&args, "--threads").and_then(|s| s.parse().ok()).unwrap_or(8);
            let mut rec = record::Recorder::new(&out);
            let mut rng = rand::rngs::StdRng::seed_from_u64(seed);
            let run = move || {
                match gen.as_str() {
                    "ops" => record::gen_ops(&mut rec, &mut rng, n),
                    "programs" => record::gen_programs(&mut rec, &mut rng, n),
                    "histories" => record::gen_histories(&mut rec, &mut rng, n),
                    "fuzz" => record::gen_fuzz(&mut rec, &mut rng, n),
                    "threads" => record::gen_threads(&mut rec, &mut rng, n, threads_arg),
                    "deep" => record::gen_deep(&mut rec, &mut rng, n),
                    "builtins" => record::gen_builtins(&mut rec, &mut rng, n),
                    "literals" => record::gen_literals(&mut rec, &mut rng, n),
                    "macros" => record::gen_macros(&mut rec, &mut rng, n),
                    "bigctx" => record::gen_bigctx(&mut rec, &mut rng, n),
                    "floatprogs" => record::gen_floatprogs(&mut rec, &mut rng, n),
                    other => {
                        eprintln!("unknown generator {other}");
                        std::process::exit(2);
                    },
                }
                let events = rec.events;
                rec.finish(&primreq);
                println!("{events}");
            };
            std::thread::Builder::new().stack_size(256 << 20).spawn(run).expect("spawn").join().expect("recorder thread");
        },
        Some("convert") => {
            // raw hook trace of /repo's own tests -> events of Trace_Api.tla
            let input = arg(&args, "--in").expect("--in");
            let out = arg(&args, "--out").expect("--out");
            let primreq = arg(&args, "--primreq").unwrap_or_else(|| format!("{out}.primreq.json"));
            let max: usize = arg(&args, "--max-events").and_then(|s| s.parse().ok()).unwrap_or(usize::MAX);
            let st = convert::convert(&input, &out, &primreq, max);
            println!(
                "{}",
                serde_json::json!({"builds": st.builds, "evals": st.evals, "skipped_numeric_types": st.skipped_numeric,
                                   "skipped_contexts": st.skipped_context, "skipped_large": st.skipped_large, "bad_lines": st.bad})
            );
        },
        Some("probe-lenunit") => {
            // the unit `len` counts in: a model parameter of Builtins.tla
            match evalexpr::eval("len(\"\u{e4}\")") {
                Ok(evalexpr::Value::Int(1)) => println!("chars"),
                _ => println!("bytes"),
            }
        },
        _ => {
            eprintln!("usage: harness replay --out FILE [--tlc-log FILE] [--max-failures N] < tlc-stdout");
            std::process::exit(2);
        },
    }
}
